(** Family 4 (C03: view chains and direct constructors) and family 5 (C02: accessors).
    Runner and encoding; definitions only. *)
From TD Require Import Base.Prelude Base.Codec Model.Iter Model.Flatten Model.View.

(** * Family 4 *)
Record vlevel : Type := mkLevel { lv_mut : bool; lv_win : N * N * N * N }.

Fixpoint view_chain (k : rkind) (p : view) (ls : list vlevel) (depth : nat)
  : res (rkind * view) + nat :=       (* inr d: level d panicked *)
  match ls with
  | [] => inl (Ok (k, p))
  | l :: tl =>
      let '(s0, s1, e0, e1) := lv_win l in
      match view_of k (lv_mut l) p s0 s1 e0 e1 with
      | Ok v => view_chain (if lv_mut l then KViewMut else KView) v tl (S depth)
      | Panic => inr depth
      | UB => inl UB
      end
  end.

(** absolute indices of all cells of a receiver, row-major, through Index<Coordinate> *)
Definition all_cells (v : view) : res (list nat) :=
  (fix rows (r : nat) (acc : list nat) : res (list nat) :=
     match r with
     | 0 => Ok acc
     | S r' =>
         row <- (fix cols (c : nat) (acc2 : list nat) : res (list nat) :=
                   match c with
                   | 0 => Ok acc2
                   | S c' => i <- v_index_coord v (N.of_nat c') (N.of_nat r') ;; cols c' (i :: acc2)
                   end) (vcols v) [] ;;
         rows r' (row ++ acc)
     end) (vrows v) [].

Definition bump (b : list N) (i : nat) : list N :=
  match nth_error b i with Some x => upd i (x + 1000)%N b | None => b end.

Definition enc_view_obs (mutable : bool) (v : view) (b : list N) : list N :=
  match all_cells v with
  | Ok cells =>
      [1%N; N.of_nat (vcols v); N.of_nat (vrows v)] ++ e_natlist cells
      ++ (if mutable then e_Nlist (fold_left bump cells b) else [])
  | Panic => [777770%N]
  | UB => [777771%N]
  end.

Definition p_level : parser vlevel :=
  m <~ p_bool ;; s0 <~ p_N ;; s1 <~ p_N ;; e0 <~ p_N ;; e1 <~ p_N ;; p_ret (mkLevel m (s0, s1, e0, e1)).

(** input: [dbg; sub; ...]; sub 0 = chain on an owned C x R array: C R levels;
    sub 1 = TooDeeView::new(c, r, slice of slen); sub 2 = TooDeeViewMut::new *)
Definition view_model (inp : list N) : list N :=
  match inp with
  | _dbg :: sub :: rest =>
      if (sub =? 0)%N then
        match run_parser (C <~ p_nat ;; R <~ p_nat ;; ls <~ p_list p_level ;; p_ret (C, R, ls)) rest with
        | None => BAD_CASE
        | Some (C, R, ls) =>
            let b0 := map N.of_nat (seq 0 (C * R)) in
            match view_chain KOwned (view_of_owned C R (C * R)) ls 0 with
            | inr d => [0%N; N.of_nat d]
            | inl (Ok (k, v)) =>
                enc_view_obs (match k with KViewMut => true | _ => false end) v b0
            | inl _ => [777771%N]
            end
        end
      else
        match run_parser (c <~ p_N ;; r <~ p_N ;; sl <~ p_nat ;; p_ret (c, r, sl)) rest with
        | None => BAD_CASE
        | Some (c, r, slen) =>
            match view_new c r slen with
            | Ok v => enc_view_obs (sub =? 2)%N v (map N.of_nat (seq 0 slen))
            | Panic => [0%N; 0%N]
            | UB => [777771%N]
            end
        end
  | _ => BAD_CASE
  end.

(** * Family 5: every accessor at one coordinate *)
Definition enc_acc (r : res nat) : list N :=
  match r with Ok i => [1%N; N.of_nat i] | Panic => [0%N] | UB => [777771%N] end.

(** [x[row][col]]: Index<usize> then the slice's own checked index *)
Definition acc_row_then_col (v : view) (c r : N) : res nat :=
  w <- v_index_row v r ;;
  if (c <? N.of_nat (len w))%N then Ok (off w + N.to_nat c) else Panic.
(** [x.col(c)[r]] *)
Definition acc_col_then_idx (k : rkind) (v : view) (c r : N) : res nat :=
  it <- v_col k v c ;; col_index it r.

Definition access_model (inp : list N) : list N :=
  match run_parser (dbg <~ p_bool ;; rk <~ p_nat ;; C <~ p_nat ;; R <~ p_nat ;;
                    w <~ p_level ;; c <~ p_N ;; r <~ p_N ;; p_ret (rk, C, R, w, c, r)) inp with
  | None => BAD_CASE
  | Some (rk, C, R, w, c, r) =>
      let parent := view_of_owned C R (C * R) in
      let '(s0, s1, e0, e1) := lv_win w in
      let recv : res (rkind * view) :=
        match rk with
        | 0 => Ok (KOwned, parent)
        | 1 => v <- view_of KOwned false parent s0 s1 e0 e1 ;; Ok (KView, v)
        | 2 => v <- view_of KOwned true parent s0 s1 e0 e1 ;; Ok (KViewMut, v)
        (* nested receivers: the window is cut from an outer window (1,1)-(C,R), narrower
           than the root: 3 view_mut of view_mut, 4 view of view_mut, 5 view of view *)
        | 3 => o <- view_of KOwned true parent 1 1 (N.of_nat C) (N.of_nat R) ;;
               v <- view_of KViewMut true o s0 s1 e0 e1 ;; Ok (KViewMut, v)
        | 4 => o <- view_of KOwned true parent 1 1 (N.of_nat C) (N.of_nat R) ;;
               v <- view_of KViewMut false o s0 s1 e0 e1 ;; Ok (KView, v)
        | _ => o <- view_of KOwned false parent 1 1 (N.of_nat C) (N.of_nat R) ;;
               v <- view_of KView false o s0 s1 e0 e1 ;; Ok (KView, v)
        end in
      match recv with
      | Ok (k, v) =>
          let inr_ := (c <? N.of_nat (vcols v))%N && (r <? N.of_nat (vrows v))%N in
          let checked := enc_acc (v_index_coord v c r) ++ enc_acc (acc_row_then_col v c r)
                         ++ enc_acc (acc_col_then_idx k v c r) in
          let mutable := match k with KView => false | _ => true end in
          1%N :: checked ++ (if mutable then checked else [])
          ++ (if inr_ then
                let u := enc_acc (v_get_unchecked v (N.to_nat c) (N.to_nat r))
                         ++ enc_acc (w <- v_get_unchecked_row v (N.to_nat r) ;; Ok (off w + N.to_nat c)) in
                u ++ (if mutable then u else [])
              else [])
      | _ => [0%N]
      end
  end.
