(** The history machine over the owned array's public API (DESIGN 6, C01/C05/C06/C07/C11/C12):
    [hstep : state -> op -> state * observation].  Elements are identities ([N]).
    Definitions only. *)
From TD Require Import Base.Prelude Base.Codec Model.Iter Model.Flatten Model.Owned Model.Access.

Definition elt := N.

Inductive hop : Type :=
| HFromVec (c r : N) (d : list elt)
| HNew (c r : N)
| HInit (c r : N) (v : elt)
| HDefault
| HInsertRow (idx : N) (s : iter_script elt)
| HPushRow (s : iter_script elt)
| HInsertCol (idx : N) (s : iter_script elt)
| HPushCol (s : iter_script elt)
| HRemoveRow (idx : N) (steps : list drain_step) (fin : drain_end)
| HPopRow (steps : list drain_step) (fin : drain_end)
| HRemoveCol (idx : N) (steps : list drain_step) (fin : drain_end)
| HPopCol (steps : list drain_step) (fin : drain_end)
| HClear
| HSwapDims
| HCapacity            (* reserve / reserve_exact / shrink_to_fit with a small argument *)
| HSetCell (c r : N) (v : elt)
| HFill (v : elt)
| HClone
| HIntoVec
| HIntoIter (k : nat)
| HDrop
(** the same operation, but the [k]-th element destructor that runs during the step panics
    (only generated around removals and [clear], whose destructor paths - std's
    [drop_in_place] on a slice, [Drain]'s and [DrainCol]'s drop guards - finish the work) *)
| HBomb (k : nat) (o : hop)
(** the same operation, but the [k]-th call (from 0) of the element type's [Clone::clone]
    ([kind] 0) or [Default::default] ([kind] 1) during the step panics (C11) *)
| HFuse (kind k : nat) (o : hop)
(** [t.clone_from(&src)] with [src = TooDee::from_vec(c, r, d)] (dropped afterwards) *)
| HCloneFrom (c r : N) (d : list elt).

Record hconf : Type := mkConf {
  cf_dbg : bool;      (* debug assertions / overflow checks on *)
  cf_cap : N;         (* capacity limit in elements: isize::MAX / size_of::<T>() *)
  cf_spare : nat;     (* spare capacity the model gives every buffer *)
  cf_track : bool;    (* the element type records drops (false: a Copy type, drops unobservable) *)
}.

Record hstate : Type := mkH { h_td : toodee elt; h_fresh : N }.

(** what the caller observes from one step *)
Record hobs : Type := mkObs {
  ob_ok : bool;                 (* false: the call panicked and the panic was caught *)
  ob_out : list N;              (* values returned (drain observations, conversions) *)
  ob_dropped : list elt;        (* everything dropped during the step (any order) *)
  ob_leaked : list elt;         (* model-only: elements leaked by the step *)
}.

Definition enc_drain_obs (o : drain_obs elt) : list N :=
  match o with
  | ObsItem None => [0%N]
  | ObsItem (Some x) => [1%N; x]
  | ObsLen n => [2%N; N.of_nat n]
  end.

Definition zero_rule_ok (c r : N) : bool :=
  if (c =? 0)%N || (r =? 0)%N then (r =? c)%N else true.

Definition of_opres (h : hstate) (r : res (opres elt)) : res (hstate * hobs) :=
  o <- r ;;
  Ok (mkH (o_td o) (h_fresh h), mkObs (o_ok o) [] (o_dropped o) (o_leaked o)).

(** a drain's yielded items are dropped by the caller at the end of the step *)
Definition of_drainres (h : hstate) (r : res (drainres elt)) : res (hstate * hobs) :=
  d <- r ;;
  Ok (mkH (d_td d) (h_fresh h),
      mkObs (d_ok d) (concat (map enc_drain_obs (d_obs d)))
            (d_escaped d ++ d_dropped d) (d_leaked d)).

Fixpoint fresh_seq (start : N) (n : nat) : list N :=
  match n with 0 => [] | S n' => start :: fresh_seq (start + 1)%N n' end.

(** What a panicking [Clone] / [Default] leaves behind, per operation (std's documented
    behaviour of the containers the crate delegates to):
    - [init]: [vec![v; n]] clones [n - 1] times, then moves [v] in; the partial Vec and [v]
      are dropped by unwinding, no array is produced;
    - [fill] (owned: [slice::fill]): cell i becomes [v.clone()] for i < n - 1 (the old
      value is dropped after the clone succeeded), the last cell takes [v] itself;
    - [clone] / [clone_from] (derived [Clone]: [*self = source.clone()]): [Vec::clone]
      clones in order, a partial copy is dropped by unwinding, [self] is not touched;
    - [new]: [Vec::resize_with(n, T::default)] likewise.
    [None]: the fuse does not fire in this operation (rejected before any call, or fewer
    calls than [k + 1]). *)
Definition fuse_fires (cf : hconf) (h : hstate) (kind k : nat) (o : hop) : option (hstate * hobs) :=
  let t := h_td h in
  match kind, o with
  | 0, HInit c r v =>
      if zero_rule_ok c r then
        match checked_mul r c with
        (* (compared as binary numbers: [p] may be far too large to write in unary) *)
        | Some p => if (p <=? cf_cap cf)%N && (N.of_nat (S k) <? p)%N
                    then Some (h, mkObs false [] (repeat v (S k)) []) else None
        | None => None
        end
      else None
  | 0, HFill v =>
      if S k <? length (data t)
      then Some (mkH (mkTD (repeat v k ++ skipn k (data t)) (num_rows t) (num_cols t)) (h_fresh h),
                 mkObs false [] (firstn k (data t) ++ [v]) [])
      else None
  | 0, HClone => if k <? length (data t) then Some (h, mkObs false [] (firstn k (data t)) []) else None
  | 0, HCloneFrom c r d =>
      if zero_rule_ok c r then
        match checked_mul c r with
        | Some p => if (p =? N.of_nat (length d))%N && (k <? length d)
                    then Some (h, mkObs false [] (firstn k d ++ d) []) else None
        | None => None
        end
      else None
  | 1, HNew c r =>
      if zero_rule_ok c r then
        match checked_mul c r with
        | Some p => if (p <=? cf_cap cf)%N && (N.of_nat k <? p)%N
                    then Some (mkH t (h_fresh h + N.of_nat k)%N, mkObs false [] (fresh_seq (h_fresh h) k) [])
                    else None
        | None => None
        end
      else None
  | _, _ => None
  end.

Fixpoint hstep (cf : hconf) (h : hstate) (o : hop) {struct o} : res (hstate * hobs) :=
  let t := h_td h in
  match o with
  | HBomb k o' =>
      r <- hstep cf h o' ;;
      let '(h', ob) := r in
      if negb (cf_track cf) then Ok r else   (* a Copy type has no destructor to panic *)
      Ok (h', mkObs (ob_ok ob && (length (ob_dropped ob) <=? k))
                    (if ob_ok ob && (length (ob_dropped ob) <=? k) then ob_out ob else [])
                    (ob_dropped ob) (ob_leaked ob))
  | HFromVec c r d =>
      (* toodee.rs from_vec *)
      if negb (zero_rule_ok c r) then Ok (h, mkObs false [] d [])
      else match checked_mul c r with
           | None => Ok (h, mkObs false [] d [])
           | Some p =>
               if (p =? N.of_nat (length d))%N
               then Ok (mkH (mkTD d (N.to_nat r) (N.to_nat c)) (h_fresh h), mkObs true [] (data t) [])
               else Ok (h, mkObs false [] d [])
           end
  | HNew c r =>
      if negb (zero_rule_ok c r) then Ok (h, mkObs false [] [] [])
      else match checked_mul c r with
           | None => Ok (h, mkObs false [] [] [])
           | Some p =>
               if negb (p <=? cf_cap cf)%N then Ok (h, mkObs false [] [] [])
               else
                 (* T::default(): a fresh identity per cell for the tracked type, 0 for u32 *)
                 let d := if cf_track cf then fresh_seq (h_fresh h) (N.to_nat p)
                          else repeat 0%N (N.to_nat p) in
                 Ok (mkH (mkTD d (N.to_nat r) (N.to_nat c)) (h_fresh h + p)%N, mkObs true [] (data t) [])
           end
  | HInit c r v =>
      if negb (zero_rule_ok c r) then Ok (h, mkObs false [] [v] [])
      else match checked_mul r c with
           | None => Ok (h, mkObs false [] [v] [])
           | Some p =>
               if negb (p <=? cf_cap cf)%N then Ok (h, mkObs false [] [v] [])
               else
                 let d := repeat v (N.to_nat p) in
                 Ok (mkH (mkTD d (N.to_nat r) (N.to_nat c)) (h_fresh h),
                     mkObs true [] (data t ++ (if (p =? 0)%N then [v] else [])) [])
           end
  | HDefault => Ok (mkH td_default (h_fresh h), mkObs true [] (data t) [])
  | HInsertRow idx s => of_opres h (insert_row (cf_dbg cf) (cf_cap cf) (cf_spare cf) t idx s)
  | HPushRow s =>
      of_opres h (insert_row (cf_dbg cf) (cf_cap cf) (cf_spare cf) t (N.of_nat (num_rows t)) s)
  | HInsertCol idx s => of_opres h (insert_col (cf_dbg cf) (cf_cap cf) (cf_spare cf) t idx s)
  | HPushCol s =>
      of_opres h (insert_col (cf_dbg cf) (cf_cap cf) (cf_spare cf) t (N.of_nat (num_cols t)) s)
  | HRemoveRow idx steps fin => of_drainres h (remove_row t idx steps fin)
  | HPopRow steps fin =>
      (* toodee.rs pop_row *)
      if num_rows t =? 0 then Ok (h, mkObs true [3%N] [] [])
      else of_drainres h (remove_row t (N.of_nat (num_rows t - 1)) steps fin)
  | HRemoveCol idx steps fin => of_drainres h (remove_col t idx steps fin)
  | HPopCol steps fin =>
      if num_cols t =? 0 then Ok (h, mkObs true [3%N] [] [])
      else of_drainres h (remove_col t (N.of_nat (num_cols t - 1)) steps fin)
  | HClear => Ok (mkH (mkTD [] 0 0) (h_fresh h), mkObs true [] (data t) [])
  | HSwapDims => Ok (mkH (mkTD (data t) (num_cols t) (num_rows t)) (h_fresh h), mkObs true [] [] [])
  | HCapacity => Ok (h, mkObs true [] [] [])
  | HSetCell c r v =>
      match td_index_coord t c r with
      | Ok i =>
          match nth_error (data t) i with
          | Some old => Ok (mkH (mkTD (upd i v (data t)) (num_rows t) (num_cols t)) (h_fresh h),
                            mkObs true [] [old] [])
          | None => UB
          end
      | Panic => Ok (h, mkObs false [] [v] [])
      | UB => UB
      end
  | HFill v =>
      (* slice::fill: every old value is dropped, the array holds clones of v (v itself last) *)
      let n := length (data t) in
      Ok (mkH (mkTD (repeat v n) (num_rows t) (num_cols t)) (h_fresh h),
          mkObs true [] (data t ++ (if n =? 0 then [v] else [])) [])
  | HClone =>
      (* t2 = t.clone(); report t2 == t; drop the original, keep the clone *)
      Ok (h, mkObs true [1%N] (data t) [])
  | HIntoVec =>
      (* Vec::from(t) then from_vec with the same dimensions *)
      Ok (h, mkObs true (e_Nlist (data t)) [] [])
  | HIntoIter k =>
      Ok (mkH td_default (h_fresh h), mkObs true (e_Nlist (firstn k (data t))) (data t) [])
  | HDrop => Ok (mkH td_default (h_fresh h), mkObs true [] (data t) [])
  | HFuse kind k o' =>
      if negb (cf_track cf) then hstep cf h o'    (* Clone / Default of a Copy type cannot panic *)
      else match fuse_fires cf h kind k o' with
           | Some r => Ok r
           | None => hstep cf h o'
           end
  | HCloneFrom c r d =>
      (* from_vec(c, r, d) (its own assertions), clone_from, report equality, drop the source *)
      if negb (zero_rule_ok c r) then Ok (h, mkObs false [] d [])
      else match checked_mul c r with
           | None => Ok (h, mkObs false [] d [])
           | Some p =>
               if (p =? N.of_nat (length d))%N
               then Ok (mkH (mkTD d (N.to_nat r) (N.to_nat c)) (h_fresh h), mkObs true [1%N] (data t ++ d) [])
               else Ok (h, mkObs false [] d [])
           end
  end.

(** * Probes run after every step: lengths through the iterator models, reads through the
    accessor model *)
Definition probe_cols (t : toodee elt) : res (list nat) :=
  (fix go (n : nat) (acc : list nat) : res (list nat) :=
     match n with
     | 0 => Ok acc
     | S n' => c <- td_col t (N.of_nat n') ;; go n' (col_len c :: acc)
     end) (num_cols t) [].

Definition probe_reads (t : toodee elt) : res (list elt) :=
  (fix rows (r : nat) (acc : list elt) : res (list elt) :=
     match r with
     | 0 => Ok acc
     | S r' =>
         row <- (fix cols (c : nat) (acc2 : list elt) : res (list elt) :=
                   match c with
                   | 0 => Ok acc2
                   | S c' =>
                       i <- td_index_coord t (N.of_nat c') (N.of_nat r') ;;
                       match nth_error (data t) i with
                       | Some x => cols c' (x :: acc2)
                       | None => UB
                       end
                   end) (num_cols t) [] ;;
         rows r' (row ++ acc)
     end) (num_rows t) [].

(** encoded observation of one step: outcome, returned values, state, drops, probes *)
Definition enc_step (cf : hconf) (h : hstate) (ob : hobs) : res (list N) :=
  let t := h_td h in
  cl <- probe_cols t ;;
  rd <- probe_reads t ;;
  Ok ([if ob_ok ob then 1%N else 0%N]
      ++ e_Nlist (ob_out ob)
      ++ [N.of_nat (num_cols t); N.of_nat (num_rows t)]
      ++ e_Nlist (data t)
      ++ e_Nlist (if cf_track cf then sort_N (ob_dropped ob) else [])
      ++ [N.of_nat (rows_len (td_rows t)); N.of_nat (flat_len rows_ops (td_cells t))]
      ++ e_natlist cl
      ++ e_Nlist rd
      (* cells whose element was already dropped; elements dropped twice so far *)
      ++ [0%N; 0%N]).

Fixpoint hrun (cf : hconf) (h : hstate) (ops : list hop) : res (list (hstate * hobs)) :=
  match ops with
  | [] => Ok []
  | o :: tl =>
      r <- hstep cf h o ;;
      rest <- hrun cf (fst r) tl ;;
      Ok (r :: rest)
  end.

Fixpoint enc_steps (cf : hconf) (l : list (hstate * hobs)) : res (list N) :=
  match l with
  | [] => Ok []
  | (h, ob) :: tl => a <- enc_step cf h ob ;; b <- enc_steps cf tl ;; Ok (a ++ b)
  end.

(** after the last step the harness drops the array and reports how many elements were
    never dropped (leaked) *)
Definition total_leaked (l : list (hstate * hobs)) : nat :=
  fold_right (fun p acc => length (ob_leaked (snd p)) + acc) 0 l.

Definition h_init : hstate := mkH td_default 1000000%N.

(** * Decoding of operation histories *)
Definition p_script : parser (iter_script elt) :=
  c <~ p_N ;; its <~ p_list p_N ;; pa <~ p_optnat ;; p_ret (mkScript c its pa).
(** one call on the drain: next, next_back, len, nth(k), nth_back(k); the default
    [Iterator::nth(k)] is k skipped elements followed by one [next] *)
Definition p_dstep : parser (list drain_step) :=
  x <~ p_N ;;
  if (x =? 0)%N then p_ret [DFront] else if (x =? 1)%N then p_ret [DBack]
  else if (x =? 2)%N then p_ret [DLen]
  else if (x =? 3)%N then k <~ p_nat ;; p_ret (repeat DSkipFront k ++ [DFront])
  else k <~ p_nat ;; p_ret (repeat DSkipBack k ++ [DBack]).
Definition p_dsteps : parser (list drain_step) := l <~ p_list p_dstep ;; p_ret (concat l).
Definition p_dend : parser drain_end :=
  x <~ p_N ;; if (x =? 0)%N then p_ret DropIt else p_ret ForgetIt.

Definition p_hop0 (code : nat) : parser hop :=
  match code with
  | 0 => c <~ p_N ;; r <~ p_N ;; d <~ p_list p_N ;; p_ret (HFromVec c r d)
  | 1 => c <~ p_N ;; r <~ p_N ;; p_ret (HNew c r)
  | 2 => c <~ p_N ;; r <~ p_N ;; v <~ p_N ;; p_ret (HInit c r v)
  | 3 => p_ret HDefault
  | 4 => i <~ p_N ;; s <~ p_script ;; p_ret (HInsertRow i s)
  | 5 => s <~ p_script ;; p_ret (HPushRow s)
  | 6 => i <~ p_N ;; s <~ p_script ;; p_ret (HInsertCol i s)
  | 7 => s <~ p_script ;; p_ret (HPushCol s)
  | 8 => i <~ p_N ;; st <~ p_dsteps ;; f <~ p_dend ;; p_ret (HRemoveRow i st f)
  | 9 => st <~ p_dsteps ;; f <~ p_dend ;; p_ret (HPopRow st f)
  | 10 => i <~ p_N ;; st <~ p_dsteps ;; f <~ p_dend ;; p_ret (HRemoveCol i st f)
  | 11 => st <~ p_dsteps ;; f <~ p_dend ;; p_ret (HPopCol st f)
  | 12 => p_ret HClear
  | 13 => p_ret HSwapDims
  | 14 => _ <~ p_N ;; _ <~ p_N ;; p_ret HCapacity
  | 15 => c <~ p_N ;; r <~ p_N ;; v <~ p_N ;; p_ret (HSetCell c r v)
  | 16 => v <~ p_N ;; p_ret (HFill v)
  | 17 => p_ret HClone
  | 18 => p_ret HIntoVec
  | 19 => k <~ p_nat ;; p_ret (HIntoIter k)
  | 20 => p_ret HDrop
  | 23 => c <~ p_N ;; r <~ p_N ;; d <~ p_list p_N ;; p_ret (HCloneFrom c r d)
  | _ => p_fail
  end.

Definition p_hop : parser hop :=
  code <~ p_nat ;;
  if code =? 21 then k <~ p_nat ;; c2 <~ p_nat ;; o <~ p_hop0 c2 ;; p_ret (HBomb k o)
  else if code =? 22 then kind <~ p_nat ;; k <~ p_nat ;; c2 <~ p_nat ;; o <~ p_hop0 c2 ;; p_ret (HFuse kind k o)
  else p_hop0 code.

Definition p_conf : parser hconf :=
  dbg <~ p_bool ;; esz <~ p_N ;; spare <~ p_nat ;; track <~ p_bool ;;
  p_ret (mkConf dbg (if (esz =? 0)%N then (W - 1)%N else (ISIZE_MAX / esz)%N) spare track).

Definition p_hist : parser (hconf * list hop) :=
  cf <~ p_conf ;; ops <~ p_list p_hop ;; p_ret (cf, ops).

Definition enc_res (r : res (list N)) : list N :=
  match r with
  | Ok l => l
  | Panic => [777770%N]   (* the model itself panicked outside an operation: never expected *)
  | UB => [777771%N]
  end.

(** the model's prediction for a whole history *)
Definition hist_model (inp : list N) : list N :=
  match run_parser p_hist inp with
  | None => BAD_CASE
  | Some (cf, ops) =>
      enc_res (l <- hrun cf h_init ops ;;
               e <- enc_steps cf l ;;
               Ok (e ++ [if cf_track cf then N.of_nat (total_leaked l) else 0%N]))
  end.

(** * Zero-sized element types: the same machine observed through counts only
    (family 2).  Per step: outcome, dimensions, [data().len()], live elements. *)
Definition enc_step_zst (leaked_so_far : nat) (h : hstate) (ob : hobs) : list N :=
  let t := h_td h in
  [if ob_ok ob then 1%N else 0%N; N.of_nat (num_cols t); N.of_nat (num_rows t);
   N.of_nat (length (data t)); N.of_nat (length (data t) + leaked_so_far)].
(** live elements = those the array owns + everything leaked so far (a faulting iterator
    makes insert_row / insert_col leak; zero-sized elements are counted, not identified) *)
Fixpoint enc_steps_zst (acc : nat) (l : list (hstate * hobs)) : list N :=
  match l with
  | [] => []
  | (h, ob) :: tl =>
      let acc' := acc + length (ob_leaked ob) in
      enc_step_zst acc' h ob ++ enc_steps_zst acc' tl
  end.

Definition zst_model (inp : list N) : list N :=
  match run_parser p_hist inp with
  | None => BAD_CASE
  | Some (cf, ops) =>
      enc_res (l <- hrun cf h_init ops ;;
               Ok (enc_steps_zst 0 l ++ [N.of_nat (total_leaked l)]))
  end.
