(** Family 10: call sequences on the row / column iterators of arrays and windows whose
    dimensions are arbitrary binary numbers (the harness runs them on zero-sized elements,
    where a 2^32 x 2^31 array costs nothing).  Positions cannot be observed there (all
    zero-sized elements share one address), so a yield is encoded by its presence and the
    row's length.  Runner and encoding; definitions only. *)
From TD Require Import Base.Prelude Base.Codec Model.Iter Model.View Model.BigIter Model.BigFlat Model.IterRun.

Inductive bstate : Type := BRows (it : brows) | BCol (it : bcol) | BCells (it : bflat).
Inductive byield : Type := BYRow (o : option bsl) | BYCell (o : option N) | BYLen (n : N) | BYIdx (r : res N).

Definition enc_byield (y : byield) : list N :=
  match y with
  | BYRow None | BYCell None => [0%N]
  | BYRow (Some w) => [1%N; blen w]
  | BYCell (Some _) => [1%N]
  | BYLen n => [n]
  | BYIdx (Ok _) => [1%N]
  | BYIdx _ => [0%N]
  end.

Definition blift_rows (r : res (option bsl * brows)) : res (byield * bstate) :=
  p <- r ;; Ok (BYRow (fst p), BRows (snd p)).
Definition blift_col (r : res (option N * bcol)) : res (byield * bstate) :=
  p <- r ;; Ok (BYCell (fst p), BCol (snd p)).

Definition blift_cells (r : res (option N * bflat)) : res (byield * bstate) :=
  p <- r ;; Ok (BYCell (fst p), BCells (snd p)).

Definition bcall_step (dbg : bool) (s : bstate) (c : icall) : res (byield * bstate) :=
  match s, c with
  | BRows it, INext => blift_rows (brows_next it)
  | BRows it, INextBack => blift_rows (brows_next_back it)
  | BRows it, INth n => blift_rows (brows_nth it n)
  | BRows it, INthBack n => blift_rows (brows_nth_back it n)
  | BRows it, ILen => Ok (BYLen (brows_len it), s)
  | BRows it, IIndex _ => Ok (BYLen 0, s)
  | BCol it, INext => blift_col (bcol_next it)
  | BCol it, INextBack => blift_col (bcol_next_back it)
  | BCol it, INth n => blift_col (bcol_nth it n)
  | BCol it, INthBack n => blift_col (bcol_nth_back it n)
  | BCol it, ILen => Ok (BYLen (bcol_len it), s)
  | BCol it, IIndex i => Ok (BYIdx (bcol_index it i), s)
  | BCells it, INext => blift_cells (bflat_next it)
  | BCells it, INextBack => blift_cells (bflat_next_back it)
  | BCells it, INth n => blift_cells (bflat_nth dbg it n)
  | BCells it, INthBack n => blift_cells (bflat_nth_back dbg it n)
  | BCells it, ILen => Ok (BYLen (bflat_len it), s)
  | BCells it, IIndex _ => Ok (BYLen 0, s)
  end.

Fixpoint bcalls (dbg : bool) (s : bstate) (cs : list icall) : res (list N * bstate) :=
  match cs with
  | [] => Ok ([], s)
  | c :: tl =>
      r <- bcall_step dbg s c ;;
      let '(y, s') := r in
      rest <- bcalls dbg s' tl ;;
      Ok (enc_byield y ++ fst rest, snd rest)
  end.

(** terminal calls: count() and last() (both O(1) in the implementation); no folds *)
Definition bterm_step (s : bstate) (t : nat) : res (list N) :=
  match t with
  | 0 => Ok [match s with BRows it => brows_len it | BCol it => bcol_len it | BCells it => bflat_len it end]
  | 1 => match s with
         | BRows it => p <- brows_next_back it ;; Ok (enc_byield (BYRow (fst p)))
         | BCol it => p <- bcol_next_back it ;; Ok (enc_byield (BYCell (fst p)))
         | BCells it => p <- bflat_next_back it ;; Ok (enc_byield (BYCell (fst p)))
         end
  | _ => Ok []
  end.

Record bcase : Type := mkBCase {
  bc_dbg : bool; bc_recv : nat; bc_C : N; bc_R : N; bc_win : N * N * N * N;
  bc_kind : nat; bc_col : N; bc_calls : list icall; bc_term : nat;
}.

Definition p_bcase : parser bcase :=
  dbg <~ p_bool ;; rk <~ p_nat ;; _mu <~ p_bool ;; C <~ p_N ;; R <~ p_N ;;
  s0 <~ p_N ;; s1 <~ p_N ;; e0 <~ p_N ;; e1 <~ p_N ;;
  ik <~ p_nat ;; ci <~ p_N ;; calls <~ p_list p_icall ;; t <~ p_nat ;;
  p_ret (mkBCase dbg rk C R (s0, s1, e0, e1) ik ci calls t).

(** receivers: 0 the owned array, 1 [TooDeeView::new(..).view(..)], 2
    [TooDeeViewMut::new(..).view_mut(..)], 3 [owned.view(..)] *)
Definition bc_receiver (c : bcase) : res (rkind * bview) :=
  let '(s0, s1, e0, e1) := bc_win c in
  let len_ := (bc_C c * bc_R c)%N in
  match bc_recv c with
  | 0 => Ok (KOwned, bview_of_owned (bc_C c) (bc_R c) len_)
  | 1 => p <- bview_new (bc_C c) (bc_R c) len_ ;; v <- bview_of KView false p s0 s1 e0 e1 ;; Ok (KView, v)
  | 2 => p <- bview_new (bc_C c) (bc_R c) len_ ;; v <- bview_of KViewMut true p s0 s1 e0 e1 ;; Ok (KViewMut, v)
  | _ => v <- bview_of KOwned false (bview_of_owned (bc_C c) (bc_R c) len_) s0 s1 e0 e1 ;; Ok (KView, v)
  end.

Definition bc_start (c : bcase) : res bstate :=
  kv <- bc_receiver c ;;
  let '(k, v) := kv in
  match bc_kind c with
  | 0 => it <- bv_rows v ;; Ok (BRows it)
  (* cells() / cells_mut(): FlattenExact over the row cursor *)
  | 2 => it <- bv_rows v ;; Ok (BCells (bflat_new it))
  | _ => it <- bv_col k v (bc_col c) ;; Ok (BCol it)
  end.

Definition bigiter_model (inp : list N) : list N :=
  match run_parser p_bcase inp with
  | None => BAD_CASE
  | Some c =>
      match bc_start c with
      | Panic => [0%N]
      | UB => [777771%N]
      | Ok s0 =>
          match (r <- bcalls (bc_dbg c) s0 (bc_calls c) ;;
                 t <- bterm_step (snd r) (bc_term c) ;;
                 Ok (fst r ++ t)) with
          | Ok l => 1%N :: l
          | Panic => [777770%N]
          | UB => [777771%N]
          end
      end
  end.
