(** Model of src/toodee.rs: the owned array, its raw-pointer routines
    ([insert_row], [insert_col], [remove_col] + [DrainCol]) on a raw buffer with explicit
    capacity and initialisation state, and [remove_row] over the documented behaviour of
    [Vec::drain].  Models the repaired code (fix: commits D1, D11, D12).  Definitions only. *)
From TD Require Import Base.Prelude Model.Iter.

Section Owned.
Context {A : Type}.

(* toodee.rs 32-36 *)
Record toodee : Type := mkTD { data : list A; num_rows : nat; num_cols : nat }.

Definition td_default : toodee := mkTD [] 0 0.

(** * Raw buffer (DESIGN 2.4) *)
Definition slots_t := list (option A).

Definition ptr_copy (src dst n : nat) (m : slots_t) : res slots_t :=
  if (src + n <=? length m) && (dst + n <=? length m) then
    Ok (firstn dst m ++ slice src n m ++ skipn (dst + n) m)
  else UB.
Definition ptr_write (i : nat) (x : A) (m : slots_t) : res slots_t :=
  if i <? length m then Ok (upd i (Some x) m) else UB.
Definition ptr_read (i : nat) (m : slots_t) : res A :=
  match nth_error m i with Some (Some x) => Ok x | _ => UB end.

(** the buffer of a [Vec] holding [d] with [spare] unused slots of capacity *)
Definition to_slots (d : list A) (spare : nat) : slots_t := map Some d ++ repeat None spare.
(** [reserve n]: capacity becomes at least [len + n]; anything the allocator adds beyond
    that is covered by [spare] *)
Definition reserve_slots (m : slots_t) (vlen n : nat) : slots_t :=
  m ++ repeat None ((vlen + n) - length m).
(** the elements a [Vec] of length [vlen] owns; [None] = it would own an uninitialised slot *)
Definition owned_prefix (m : slots_t) (vlen : nat) : option (list A) :=
  if vlen <=? length m then all_some (firstn vlen m) else None.

(** * Caller-supplied element iterators are scripts (DESIGN 2.5) *)
Record iter_script : Type := mkScript {
  claimed : N;              (* what ExactSizeIterator::len() answers *)
  items : list A;           (* what it would yield from the front, in order *)
  panic_at : option nat;    (* the k-th call of next()/next_back() panics *)
}.

Inductive pull : Type := Yield (x : A) | Done | Boom.
(** the [k]-th call to [next()] *)
Definition script_next (s : iter_script) (k : nat) : pull :=
  match panic_at s with
  | Some p => if p =? k then Boom else
      match nth_error (items s) k with Some x => Yield x | None => Done end
  | None => match nth_error (items s) k with Some x => Yield x | None => Done end
  end.
(** the [k]-th call to [next_back()] (i.e. [rev().next()]) *)
Definition script_next_back (s : iter_script) (k : nat) : pull :=
  let its := rev (items s) in
  match panic_at s with
  | Some p => if p =? k then Boom else
      match nth_error its k with Some x => Yield x | None => Done end
  | None => match nth_error its k with Some x => Yield x | None => Done end
  end.

(** Result of an operation on the owned array: the array as the caller finds it
    afterwards (also after a caught panic), whether it returned or panicked, and the
    elements that were dropped / leaked while it ran. *)
Record opres : Type := mkOp {
  o_td : toodee;
  o_ok : bool;               (* false = the call panicked (and was caught) *)
  o_dropped : list A;
  o_leaked : list A;
}.

(** [Vec::reserve] panics with "capacity overflow" when the new capacity exceeds
    [cap_limit] elements (isize::MAX bytes / element size); below that the model assumes the
    allocation succeeds (allocation failure aborts and is outside the model). *)
Definition reserve_ok (cap_limit : N) (vlen : nat) (n : N) : bool :=
  (N.of_nat vlen + n <=? cap_limit)%N.

(** * insert_row  (toodee.rs, repaired) *)
(** the write loop [while p < suffix]: [k] = number of next() calls made so far,
    [p] = write position, [todo] = suffix - p *)
Fixpoint insert_row_loop (s : iter_script) (todo k p : nat) (m : slots_t)
  : res (slots_t * bool * nat) :=   (* buffer, completed?, elements written *)
  match todo with
  | 0 => Ok (m, true, k)
  | S todo' =>
      match script_next s k with
      | Yield e => m' <- ptr_write p e m ;; insert_row_loop s todo' (S k) (S p) m'
      | Done => Ok (m, false, k)     (* assert_eq!(p, suffix) fails *)
      | Boom => Ok (m, false, k)
      end
  end.

Definition unconsumed (s : iter_script) (k : nat) : list A := skipn k (items s).

Definition insert_row (dbg : bool) (cap_limit : N) (spare : nat)
  (t : toodee) (index : N) (s : iter_script) : res opres :=
  let all := items s in
  if negb (index <=? N.of_nat (num_rows t))%N then Ok (mkOp t false all [])
  else
    let num_rows0 := num_rows t in
    (* width adoption / length check *)
    let width : option N :=
      if num_rows0 =? 0 then Some (claimed s)
      else if (N.of_nat (num_cols t) =? claimed s)%N then Some (claimed s) else None in
    match width with
    | None => Ok (mkOp t false all [])
    | Some ncN =>
        if negb (reserve_ok cap_limit (length (data t)) ncN) then Ok (mkOp t false all [])
        else
          let nc := N.to_nat ncN in
          let idx := N.to_nat index in
          let m0 := reserve_slots (to_slots (data t) spare) (length (data t)) nc in
          let start := idx * nc in
          let len0 := length (data t) in
          cnt <- usub len0 start ;;
          (* set_len(start); dimensions describe the truncated Vec *)
          let crit_cols := if idx =? 0 then 0 else num_cols t in
          m1 <- ptr_copy start (start + nc) cnt m0 ;;
          r <- insert_row_loop s nc 0 start m1 ;;
          let '(m2, completed, k) := r in
          let moved := skipn start (data t) in
          if negb completed then
            match owned_prefix m2 start with
            | None => UB
            | Some d =>
                Ok (mkOp (mkTD d idx crit_cols) false (unconsumed s k)
                         (moved ++ firstn k (items s)))
            end
          else
            (* debug_assert!(iter.next().is_none()) *)
            let extra : option (bool * nat) :=   (* Some (panics, calls) *)
              if dbg then
                match script_next s k with
                | Yield _ => Some (true, S k)
                | Boom => Some (true, S k)
                | Done => Some (false, S k)
                end
              else None in
            match extra with
            | Some (true, k') =>
                match owned_prefix m2 start with
                | None => UB
                | Some d =>
                    (* the element returned by the extra next() is dropped at once *)
                    Ok (mkOp (mkTD d idx crit_cols) false (unconsumed s k)
                             (moved ++ firstn k (items s)))
                end
            | _ =>
                match owned_prefix m2 (len0 + nc) with
                | None => UB
                | Some d =>
                    let t' := if nc =? 0 then mkTD d idx crit_cols
                              else mkTD d (num_rows0 + 1) nc in
                    Ok (mkOp t' true (unconsumed s k) [])
                end
            end
    end.

(** * insert_col  (toodee.rs, repaired) *)
(** the [for _ in 0..num_rows-1] loop; [j] iterations remain *)
Fixpoint insert_col_loop (s : iter_script) (nc : nat) (j k read_p write_p : nat) (m : slots_t)
  : res (slots_t * bool * nat * nat * nat) :=  (* buffer, completed?, written, read_p, write_p *)
  match j with
  | 0 => Ok (m, true, k, read_p, write_p)
  | S j' =>
      read_p' <- usub read_p nc ;;
      write_p' <- usub write_p nc ;;
      m1 <- ptr_copy read_p' write_p' nc m ;;
      write_p'' <- usub write_p' 1 ;;
      match script_next_back s k with
      | Yield e =>
          m2 <- ptr_write write_p'' e m1 ;;
          insert_col_loop s nc j' (S k) read_p' write_p'' m2
      | Done | Boom => Ok (m1, false, k, read_p', write_p'')
      end
  end.

Definition rev_unconsumed (s : iter_script) (k : nat) : list A := skipn k (rev (items s)).

Definition insert_col (dbg : bool) (cap_limit : N) (spare : nat)
  (t : toodee) (index : N) (s : iter_script) : res opres :=
  let all := items s in
  if negb (index <=? N.of_nat (num_cols t))%N then Ok (mkOp t false all [])
  else
    let nc := num_cols t in
    let height : option N :=
      if nc =? 0 then Some (claimed s)
      else if (N.of_nat (num_rows t) =? claimed s)%N then Some (claimed s) else None in
    match height with
    | None => Ok (mkOp t false all [])
    | Some nrN =>
        if negb (reserve_ok cap_limit (length (data t)) nrN) then Ok (mkOp t false all [])
        else
          let nr := N.to_nat nrN in
          let idx := N.to_nat index in
          let old_len := length (data t) in
          let new_len := old_len + nr in
          suffix_len <- usub nc idx ;;
          let m0 := reserve_slots (to_slots (data t) spare) old_len nr in
          (* set_len(0); dimensions (0,0) during the critical section *)
          let fail (k : nat) :=
            Ok (mkOp (mkTD [] 0 0) false (rev_unconsumed s k)
                     (data t ++ firstn k (rev (items s)))) in
          r <-
            (if 0 <? nr then
               read_p <- usub old_len suffix_len ;;
               write_p <- usub new_len suffix_len ;;
               m1 <- ptr_copy read_p write_p suffix_len m0 ;;
               write_p' <- usub write_p 1 ;;
               match script_next_back s 0 with
               | Yield e =>
                   m2 <- ptr_write write_p' e m1 ;;
                   r <- insert_col_loop s nc (nr - 1) 1 read_p write_p' m2 ;;
                   let '(m3, completed, k, rp, wp) := r in
                   if negb completed then Ok (m3, false, k)
                   else
                     rp' <- usub rp idx ;;
                     wp' <- usub wp idx ;;
                     m4 <- ptr_copy rp' wp' idx m3 ;;
                     Ok (m4, true, k)
               | Done | Boom => Ok (m1, false, 0)
               end
             else Ok (m0, true, 0)) ;;
          let '(m5, completed, k) := r in
          if negb completed then fail k
          else
            let extra : option (bool * nat) :=
              if dbg then
                match script_next_back s k with
                | Yield _ => Some (true, S k)
                | Boom => Some (true, S k)
                | Done => Some (false, S k)
                end
              else None in
            match extra with
            | Some (true, k') => fail k
            | _ =>
                match owned_prefix m5 new_len with
                | None => UB
                | Some d =>
                    let t' := if 0 <? nr then mkTD d nr (nc + 1) else mkTD d 0 0 in
                    Ok (mkOp t' true (rev_unconsumed s k) [])
                end
            end
    end.

(** * Drains (DESIGN 2.5) *)
(** [DSkipFront] / [DSkipBack]: an element taken by the default [Iterator::nth] /
    [nth_back] on its way to the requested one: handed out and dropped at once, not reported *)
Inductive drain_step : Type := DFront | DBack | DLen | DSkipFront | DSkipBack.
Inductive drain_end : Type := DropIt | ForgetIt.
(** what the caller observes from one drain step *)
Inductive drain_obs : Type := ObsItem (x : option A) | ObsLen (n : nat).

(** * remove_row  (toodee.rs, repaired): rotate the row to the end, [Vec::drain] the tail.
    [Vec::drain(range)] (documented): the Vec's length is the range start while the Drain is
    outstanding; the Drain yields the range's elements from either end; dropping it drops
    the unyielded ones and moves the tail (here empty) back; leaking it leaves the truncated
    Vec and leaks the rest. *)
Fixpoint run_vec_drain (steps : list drain_step) (rem : list A) : list drain_obs * list A * list A :=
  (* observations, yielded (escaped), remaining *)
  match steps with
  | [] => ([], [], rem)
  | DLen :: tl =>
      let '(o, y, r) := run_vec_drain tl rem in (ObsLen (length rem) :: o, y, r)
  | DFront :: tl =>
      match rem with
      | [] => let '(o, y, r) := run_vec_drain tl rem in (ObsItem None :: o, y, r)
      | x :: rem' => let '(o, y, r) := run_vec_drain tl rem' in (ObsItem (Some x) :: o, x :: y, r)
      end
  | DBack :: tl =>
      match rev rem with
      | [] => let '(o, y, r) := run_vec_drain tl rem in (ObsItem None :: o, y, r)
      | x :: rrem' =>
          let '(o, y, r) := run_vec_drain tl (rev rrem') in (ObsItem (Some x) :: o, x :: y, r)
      end
  | DSkipFront :: tl =>
      match rem with
      | [] => run_vec_drain tl rem
      | x :: rem' => let '(o, y, r) := run_vec_drain tl rem' in (o, x :: y, r)
      end
  | DSkipBack :: tl =>
      match rev rem with
      | [] => run_vec_drain tl rem
      | x :: rrem' => let '(o, y, r) := run_vec_drain tl (rev rrem') in (o, x :: y, r)
      end
  end.

Record drainres : Type := mkDrain {
  d_td : toodee;
  d_ok : bool;
  d_obs : list drain_obs;
  d_escaped : list A;     (* handed to the caller *)
  d_dropped : list A;     (* dropped by the drain's destructor *)
  d_leaked : list A;
}.

Definition remove_row (t : toodee) (index : N) (steps : list drain_step) (fin : drain_end)
  : res drainres :=
  if negb (index <? N.of_nat (num_rows t))%N then Ok (mkDrain t false [] [] [] [])
  else
    let idx := N.to_nat index in
    let nc := num_cols t in
    let start := idx * nc in
    (* self.data[start..].rotate_left(num_cols) *)
    _ <- assert (start <=? length (data t)) ;;
    let tail := skipn start (data t) in
    _ <- assert (nc <=? length tail) ;;
    let d1 := firstn start (data t) ++ rotate_left nc tail in
    tail_start <- usub (length d1) nc ;;
    (* drain(tail_start..): Vec length is now tail_start *)
    let row := skipn tail_start d1 in
    let kept := firstn tail_start d1 in
    let nr := num_rows t - 1 in
    let t' := if nr =? 0 then mkTD kept 0 0 else mkTD kept nr nc in
    let '(obs, yielded, rem) := run_vec_drain steps row in
    match fin with
    | DropIt => Ok (mkDrain t' true obs yielded rem [])
    | ForgetIt => Ok (mkDrain t' true obs yielded [] rem)
    end.

(** * remove_col and DrainCol  (toodee.rs, repaired) *)
Record draincol : Type := mkDC {
  dc_slots : slots_t;
  dc_iter : col_it;
  dc_col : nat;
  dc_cols : nat;  (* dimensions before the removal *)
  dc_rows : nat;
}.

(** [ptr::read] through the reference the [Col] cursor yields; the slot becomes moved-out *)
Definition dc_take (d : draincol) (r : res (option nat * col_it)) : res (option A * draincol) :=
  p <- r ;;
  let '(oi, it') := p in
  match oi with
  | None => Ok (None, mkDC (dc_slots d) it' (dc_col d) (dc_cols d) (dc_rows d))
  | Some i =>
      x <- ptr_read i (dc_slots d) ;;
      Ok (Some x, mkDC (upd i None (dc_slots d)) it' (dc_col d) (dc_cols d) (dc_rows d))
  end.
Definition dc_next (d : draincol) := dc_take d (col_next (dc_iter d)).
Definition dc_next_back (d : draincol) := dc_take d (col_next_back (dc_iter d)).
Definition dc_len (d : draincol) : nat := col_len (dc_iter d).

Fixpoint run_dc (steps : list drain_step) (d : draincol)
  : res (list drain_obs * list A * draincol) :=
  match steps with
  | [] => Ok ([], [], d)
  | DLen :: tl =>
      r <- run_dc tl d ;;
      let '(o, y, d') := r in Ok (ObsLen (dc_len d) :: o, y, d')
  | DFront :: tl =>
      p <- dc_next d ;;
      let '(x, d1) := p in
      r <- run_dc tl d1 ;;
      let '(o, y, d') := r in
      Ok (ObsItem x :: o, match x with Some e => e :: y | None => y end, d')
  | DBack :: tl =>
      p <- dc_next_back d ;;
      let '(x, d1) := p in
      r <- run_dc tl d1 ;;
      let '(o, y, d') := r in
      Ok (ObsItem x :: o, match x with Some e => e :: y | None => y end, d')
  | DSkipFront :: tl =>
      p <- dc_next d ;;
      let '(x, d1) := p in
      r <- run_dc tl d1 ;;
      let '(o, y, d') := r in
      Ok (o, match x with Some e => e :: y | None => y end, d')
  | DSkipBack :: tl =>
      p <- dc_next_back d ;;
      let '(x, d1) := p in
      r <- run_dc tl d1 ;;
      let '(o, y, d') := r in
      Ok (o, match x with Some e => e :: y | None => y end, d')
  end.

(** exhaust the drain ([while let Some(item) = self.next()] / [for_each(drop)]) *)
Fixpoint dc_exhaust (fuel : nat) (d : draincol) : res (list A * draincol) :=
  match fuel with
  | 0 => UB
  | S f =>
      p <- dc_next d ;;
      match p with
      | (None, d') => Ok ([], d')
      | (Some x, d') => r <- dc_exhaust f d' ;; Ok (x :: fst r, snd r)
      end
  end.

(** the compaction loop of DropGuard::drop: [for _ in 1..num_rows] *)
Fixpoint dc_compact (j new_cols orig_cols src dest : nat) (m : slots_t)
  : res (slots_t * nat * nat) :=
  match j with
  | 0 => Ok (m, src, dest)
  | S j' =>
      m' <- ptr_copy src dest new_cols m ;;
      dc_compact j' new_cols orig_cols (src + orig_cols) (dest + new_cols) m'
  end.

Definition remove_col (t : toodee) (index : N) (steps : list drain_step) (fin : drain_end)
  : res drainres :=
  if negb (index <? N.of_nat (num_cols t))%N then Ok (mkDrain t false [] [] [] [])
  else
    let idx := N.to_nat index in
    let nc := num_cols t in
    let nr := num_rows t in
    k <- usub (length (data t)) nc ;;
    let slice_len := k + 1 in
    (* set_len(0); dimensions (0,0) while the drain is outstanding *)
    let d0 := mkDC (map Some (data t)) (mkCol (mkSl idx slice_len) (nc - 1)) idx nc nr in
    r <- run_dc steps d0 ;;
    let '(obs, yielded, d1) := r in
    match fin with
    | ForgetIt =>
        Ok (mkDrain (mkTD [] 0 0) true obs yielded []
              (fold_right (fun o acc => match o with Some x => x :: acc | None => acc end)
                          [] (dc_slots d1)))
    | DropIt =>
        e <- dc_exhaust (S (length (data t))) d1 ;;
        let '(dropped, d2) := e in
        let new_cols := nc - 1 in
        c <- dc_compact (nr - 1) new_cols nc (idx + 1) idx (dc_slots d2) ;;
        let '(m1, src, dest) := c in
        cnt <- usub nc (idx + 1) ;;
        m2 <- ptr_copy src dest cnt m1 ;;
        let '(fc, fr) := if 0 <? new_cols then (new_cols, nr) else (0, 0) in
        match owned_prefix m2 (fc * fr) with
        | None => UB
        | Some d => Ok (mkDrain (mkTD d fr fc) true obs yielded dropped [])
        end
    end.

End Owned.

Arguments toodee : clear implicits.
Arguments iter_script : clear implicits.
Arguments opres : clear implicits.
Arguments drainres : clear implicits.
Arguments drain_obs : clear implicits.
Arguments draincol : clear implicits.
