(** Model of the accessors and iterator constructors of the owned array (toodee.rs 58-290)
    and of views (view.rs).  Every function returns the absolute index / window into the
    root buffer that the Rust expression denotes.  Definitions only. *)
From TD Require Import Base.Prelude Model.Iter Model.Flatten Model.Owned.

Section AccessOwned.
Context {A : Type}.
Implicit Type t : toodee A.

Definition td_full t : sl := mkSl 0 (length (data t)).

(* toodee.rs 68-75 / 108-115 *)
Definition td_index_row t (row : N) : res sl :=
  _ <- assert (row <? N.of_nat (num_rows t))%N ;;
  let start := N.to_nat row * num_cols t in
  get_range (td_full t) start (start + num_cols t).
(* toodee.rs 87-94 / 127-134 *)
Definition td_index_coord t (c r : N) : res nat :=
  _ <- assert (r <? N.of_nat (num_rows t))%N ;;
  _ <- assert (c <? N.of_nat (num_cols t))%N ;;
  let i := N.to_nat r * num_cols t + N.to_nat c in
  _ <- require (i <? length (data t)) ;; Ok i.
(* toodee.rs 184-190 / 265-271 *)
Definition td_rows t : rows_it := mkRows (td_full t) (num_cols t) 0.
(* toodee.rs 200-208 / 281-290 *)
Definition td_col t (c : N) : res col_it :=
  _ <- assert (c <? N.of_nat (num_cols t))%N ;;
  e <- usub (length (data t)) (num_cols t) ;;
  v <- get_range (td_full t) (N.to_nat c) (e + N.to_nat c + 1) ;;
  k <- usub (num_cols t) 1 ;;
  Ok (mkCol v k).
(* ops.rs 89-91 / 168-170 *)
Definition td_cells t := flat_new (I:=rows_it) (td_rows t).

End AccessOwned.
