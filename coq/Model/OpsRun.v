(** Family 6: one trait operation on an owned array, a mutable view of it, or a third-party
    implementor relying on the defaults (C04, C13-C17).  Runner and encoding. *)
From TD Require Import Base.Prelude Base.Codec Model.Iter Model.Flatten Model.View Model.Ops.

Inductive top : Type :=
| OFill (x : N)
| OSwapRows (r1 r2 : N)
| OSwap (c1 r1 c2 r2 : N)
| OSwapCols (c1 c2 : N)
| ORowPair (r1 r2 : N)
| OCopyFromSlice (clone : bool) (src : list N)
| OCopyFromTooDee (clone : bool) (sc sr : nat) (cells : list N)
| OCopyWithin (x0 y0 x1 y1 dx dy : N)
| OTranslate (mc mr : N)
| OFlipRows
| OFlipCols
| OSort (variant : nat) (line : N) (sigma : list nat)
(** the comparator / key function panicked at its k-th call ([fired], as observed: the number
    of calls a sort makes is the standard library's business) or was not called that often *)
| OSortFuse (variant : nat) (line : N) (k : N) (fired : bool) (sigma : list nat)
| OSetCell (c r x : N)
| OSetRowCell (c r x : N)
(** clone_from_slice ([td] = false; the source is [cells]) / clone_from_toodee ([td] = true; an
    [sc] x [sr] source) over elements whose k-th [Clone] call panics (C11) *)
| OCloneFuse (td : bool) (sc sr : nat) (cells : list N) (k : N).

Record ocase : Type := mkOCase {
  oc_dbg : bool; oc_kind : nat; oc_zst : bool; oc_big : bool; oc_trk : bool; oc_C : nat; oc_R : nat; oc_win : N * N * N * N;
  oc_data : list N; oc_op : top;
}.

Definition p_top : parser top :=
  code <~ p_nat ;;
  match code with
  | 1 => x <~ p_N ;; p_ret (OFill x)
  | 2 => a <~ p_N ;; b <~ p_N ;; p_ret (OSwapRows a b)
  | 3 => a <~ p_N ;; b <~ p_N ;; c <~ p_N ;; d <~ p_N ;; p_ret (OSwap a b c d)
  | 4 => a <~ p_N ;; b <~ p_N ;; p_ret (OSwapCols a b)
  | 5 => a <~ p_N ;; b <~ p_N ;; p_ret (ORowPair a b)
  | 6 => s <~ p_list p_N ;; p_ret (OCopyFromSlice false s)
  | 7 => s <~ p_list p_N ;; p_ret (OCopyFromSlice true s)
  | 8 => c <~ p_nat ;; r <~ p_nat ;; s <~ p_list p_N ;; p_ret (OCopyFromTooDee false c r s)
  | 9 => c <~ p_nat ;; r <~ p_nat ;; s <~ p_list p_N ;; p_ret (OCopyFromTooDee true c r s)
  | 10 => a <~ p_N ;; b <~ p_N ;; c <~ p_N ;; d <~ p_N ;; e <~ p_N ;; f <~ p_N ;;
          p_ret (OCopyWithin a b c d e f)
  | 11 => a <~ p_N ;; b <~ p_N ;; p_ret (OTranslate a b)
  | 12 => p_ret OFlipRows
  | 13 => p_ret OFlipCols
  | 14 => v <~ p_nat ;; l <~ p_N ;; s <~ p_list p_nat ;; p_ret (OSort (v mod 20) l s)   (* + 20: a one-byte key type *)
  | 17 => v <~ p_nat ;; l <~ p_N ;; k <~ p_N ;; f <~ p_bool ;; s <~ p_list p_nat ;; p_ret (OSortFuse v l k f s)
  | 15 => a <~ p_N ;; b <~ p_N ;; c <~ p_N ;; p_ret (OSetCell a b c)
  | 16 => a <~ p_N ;; b <~ p_N ;; c <~ p_N ;; p_ret (OSetRowCell a b c)
  | 18 => td <~ p_bool ;; _strided <~ p_bool ;; c <~ p_nat ;; r <~ p_nat ;; s <~ p_list p_N ;; k <~ p_N ;; p_ret (OCloneFuse td c r s k)
  | _ => p_fail
  end.

Definition p_ocase : parser ocase :=
  dbg <~ p_bool ;; k <~ p_nat ;; C <~ p_nat ;; R <~ p_nat ;;
  s0 <~ p_N ;; s1 <~ p_N ;; e0 <~ p_N ;; e1 <~ p_N ;;
  d <~ p_list p_N ;; o <~ p_top ;;
  (* kind + 10: zero-sized elements; kind + 20: 328-byte elements carrying the same values *)
  (* kind + 30: drop-tracked elements (obs: outcome, buffer, double drops, leaked) *)
  p_ret (mkOCase dbg (k mod 10) ((10 <=? k) && (k <? 20)) ((20 <=? k) && (k <? 30)) (30 <=? k) C R (s0, s1, e0, e1) d o).

Definition oc_receiver (c : ocase) : res (rkind * view) :=
  let parent := view_of_owned (oc_C c) (oc_R c) (oc_C c * oc_R c) in
  let '(s0, s1, e0, e1) := oc_win c in
  match oc_kind c with
  | 0 => Ok (KOwned, parent)
  | 2 => v <- view_of KOwned true parent s0 s1 e0 e1 ;; Ok (KViewMut, v)
  (* nested mutable windows: cut from an outer mutable view narrower than the parent *)
  | 4 => o <- view_of KOwned true parent 1 1 (N.of_nat (oc_C c)) (N.of_nat (oc_R c)) ;;
         v <- view_of KViewMut true o s0 s1 e0 e1 ;; Ok (KViewMut, v)
  | 5 => o <- view_of KOwned true parent 0 0 (N.of_nat (oc_C c - 1)) (N.of_nat (oc_R c - 1)) ;;
         v <- view_of KViewMut true o s0 s1 e0 e1 ;; Ok (KViewMut, v)
  (* TooDeeViewMut::new over the whole buffer as a slice *)
  | 6 => v <- view_new (N.of_nat (oc_C c)) (N.of_nat (oc_R c)) (length (oc_data c)) ;; Ok (KViewMut, v)
  | _ => v <- view_of KOwned true parent s0 s1 e0 e1 ;; Ok (KThird, v)
  end.

(** sort variants: 0 by_row, 1 unstable_by_row, 2 by_row_key, 3 unstable_by_row_key,
    4 row_ord, 5 unstable_row_ord, 6 by_col, 7 unstable_by_col, 8 by_col_key (repaired, D6),
    9 unstable_by_col_key, 10 col_ord *)
Definition sort_is_col (v : nat) : bool := 6 <=? v.
Definition sort_is_stable (v : nat) : bool :=
  match v with 1 | 3 | 5 | 7 | 9 => false | _ => true end.
Definition sort_by_key (v : nat) : bool := match v with 4 | 5 | 10 => false | _ => true end.

Definition fits32 (x : N) : bool := (x <? 4294967296)%N.

(** result: extra observations (row_pair_mut windows) and the buffer *)
Definition run_top (dbg : bool) (k : rkind) (v : view) (b : buf) (o : top) : res (list N * buf) :=
  let only (r : res buf) := b' <- r ;; Ok ([], b') in
  match o with
  | OFill x => only (op_fill k v b x)
  | OSwapRows r1 r2 => only (op_swap_rows k v b r1 r2)
  | OSwap c1 r1 c2 r2 => only (op_swap k v b c1 r1 c2 r2)
  | OSwapCols c1 c2 => only (op_swap_cols v b c1 c2)
  | ORowPair r1 r2 =>
      p <- op_row_pair v r1 r2 ;;
      Ok ([N.of_nat (off (fst p)); N.of_nat (len (fst p));
           N.of_nat (off (snd p)); N.of_nat (len (snd p))], b)
  | OCopyFromSlice _ src => only (op_copy_from_slice k v b src)
  | OCopyFromTooDee _ sc sr cells =>
      only (op_copy_from_toodee k v b (sc, sr) (chunks sr sc cells))
  | OCopyWithin x0 y0 x1 y1 dx dy =>
      (* destination corners beyond 32 bits take [wide_copy_within] below *)
      if fits32 dx && fits32 dy then only (op_copy_within dbg v b x0 y0 x1 y1 dx dy) else UB
  | OTranslate mc mr => only (op_translate v b mc mr)
  | OFlipRows => only (op_flip_rows v b)
  | OFlipCols => only (op_flip_cols v b)
  | OSort var line sigma =>
      if sort_is_col var
      then only (op_sort_by_col k v b line (sort_is_stable var) (sort_by_key var) sigma)
      else only (op_sort_by_row v b line (sort_is_stable var) (sort_by_key var) sigma)
  | OSortFuse var line _ fired sigma =>
      (* the comparator runs inside the side sort of (index, key) pairs, before any cell is
         moved: a panic there leaves the array as it was *)
      if fired then Panic
      else if sort_is_col var
      then only (op_sort_by_col k v b line (sort_is_stable var) (sort_by_key var) sigma)
      else only (op_sort_by_row v b line (sort_is_stable var) (sort_by_key var) sigma)
  | OCloneFuse td sc sr cells _ =>
      (* the completed call; a firing fuse is handled by [clone_fuse_model] *)
      if td then only (op_copy_from_toodee k v b (sc, sr) (chunks sr sc cells))
      else only (op_copy_from_slice k v b cells)
  | OSetCell c r x => i <- v_index_coord v c r ;; only (Ok (upd i x b))
  | OSetRowCell c r x =>
      w <- v_index_row v r ;;
      if (c <? N.of_nat (len w))%N then only (Ok (upd (off w + N.to_nat c) x b)) else Panic
  end.

(** copy_within with a destination corner beyond 32 bits: the binary-number path, which
    also reports what a panic in the middle of the loop leaves behind *)
Definition wide_copy_within (dbg : bool) (v : view) (b : buf) (o : top) : option (res (bool * buf)) :=
  match o with
  | OCopyWithin x0 y0 x1 y1 dx dy =>
      if fits32 dx && fits32 dy then None else Some (op_copy_within_w dbg v b x0 y0 x1 y1 dx dy)
  | _ => None
  end.

(** [Some (Ok (panicked, buffer))] for a clone operation over fused elements: sizes that do
    not match panic before the first clone; otherwise the k-th clone panics when there are
    that many cells, leaving the first k cells cloned and the rest as they were *)
Definition clone_fuse_model (dbg : bool) (k : rkind) (v : view) (b : buf) (o : top) : option (res (bool * buf)) :=
  match o with
  | OCloneFuse td sc sr cells kf =>
      Some (match run_top dbg k v b o with
            | Ok (_, b') =>
                let pos := recv_cells v in
                if (kf <? N.of_nat (length pos))%N then
                  Ok (true, partial_clone b b' pos (N.to_nat kf))
                else Ok (false, b')
            | Panic => Ok (true, b)
            | UB => UB
            end)
  | _ => None
  end.

Definition ops_model (inp : list N) : list N :=
  match run_parser p_ocase inp with
  | None => BAD_CASE
  | Some c =>
      match oc_receiver c with
      | Ok (k, v) =>
          match clone_fuse_model (oc_dbg c) k v (oc_data c) (oc_op c) with
          | Some (Ok (panicked, b')) =>
              (* no element dropped twice, none leaked: the model of the code as it is *)
              (if panicked then 0%N else 1%N) :: e_Nlist b' ++ [0%N; 0%N]
          | Some Panic => [777770%N]
          | Some UB => [777771%N]
          | None =>
          match wide_copy_within (oc_dbg c) v (oc_data c) (oc_op c) with
          | Some (Ok (panicked, b')) =>
              let ok := if panicked then 0%N else 1%N in
              if oc_zst c then [ok; N.of_nat (length b')] else ok :: e_Nlist b'
          | Some Panic => [777770%N]
          | Some UB => [777771%N]
          | None =>
          match run_top (oc_dbg c) k v (oc_data c) (oc_op c) with
          (* zero-sized elements: only the outcome and the buffer's length are observable *)
          | Ok (extra, b') => if oc_zst c then [1%N; N.of_nat (length b')]
                              else if oc_big c then 1%N :: e_Nlist b'    (* no addresses from row_pair_mut *)
                              else 1%N :: extra ++ e_Nlist b'
          | Panic => if oc_zst c then [0%N; N.of_nat (length (oc_data c))] else 0%N :: e_Nlist (oc_data c)
          | UB => [777771%N]
          end
          end
          end
      | _ => [777770%N]
      end
  end.
