(** Family 3: call sequences on the row / column / cell iterators of an owned array or a
    window of it (C08, C09, C10).  Runner and encoding; definitions only. *)
From TD Require Import Base.Prelude Base.Codec Model.Iter Model.Flatten Model.View.

Inductive icall : Type :=
| INext | INextBack | INth (n : N) | INthBack (n : N) | ILen | IIndex (i : N).
Inductive iterm : Type := TCount | TLast | TFold | TRfold | TNone.
Inductive ikind : Type := ItRows | ItCol | ItCells.

Inductive istate : Type :=
| SRows (it : rows_it)
| SCol (it : col_it)
| SCells (it : flat (I:=rows_it)).

(** what one call yields *)
Inductive iyield : Type :=
| YRow (o : option sl) | YCell (o : option nat) | YLen (n : nat) | YIdx (r : res nat).

Definition enc_yield (y : iyield) : list N :=
  match y with
  | YRow None | YCell None => [0%N]
  | YRow (Some w) => [1%N; N.of_nat (off w); N.of_nat (len w)]
  | YCell (Some i) => [1%N; N.of_nat i]
  | YLen n => [N.of_nat n]
  | YIdx (Ok i) => [1%N; N.of_nat i]
  | YIdx _ => [0%N]
  end.

Definition lift_rows (r : res (option sl * rows_it)) : res (iyield * istate) :=
  p <- r ;; Ok (YRow (fst p), SRows (snd p)).
Definition lift_col (r : res (option nat * col_it)) : res (iyield * istate) :=
  p <- r ;; Ok (YCell (fst p), SCol (snd p)).
Definition lift_cells (r : res (option nat * flat (I:=rows_it))) : res (iyield * istate) :=
  p <- r ;; Ok (YCell (fst p), SCells (snd p)).

Definition icall_step (dbg : bool) (s : istate) (c : icall) : res (iyield * istate) :=
  match s, c with
  | SRows it, INext => lift_rows (rows_next it)
  | SRows it, INextBack => lift_rows (rows_next_back it)
  | SRows it, INth n => lift_rows (rows_nth it n)
  | SRows it, INthBack n => lift_rows (rows_nth_back it n)
  | SRows it, ILen => Ok (YLen (rows_len it), s)
  | SRows it, IIndex _ => Ok (YLen 0, s)
  | SCol it, INext => lift_col (col_next it)
  | SCol it, INextBack => lift_col (col_next_back it)
  | SCol it, INth n => lift_col (col_nth it n)
  | SCol it, INthBack n => lift_col (col_nth_back it n)
  | SCol it, ILen => Ok (YLen (col_len it), s)
  | SCol it, IIndex i => Ok (YIdx (col_index it i), s)
  | SCells it, INext => lift_cells (flat_next rows_ops it)
  | SCells it, INextBack => lift_cells (flat_next_back rows_ops it)
  | SCells it, INth n => lift_cells (flat_nth rows_ops dbg it n)
  | SCells it, INthBack n => lift_cells (flat_nth_back rows_ops dbg it n)
  | SCells it, ILen => Ok (YLen (flat_len rows_ops it), s)
  | SCells it, IIndex _ => Ok (YLen 0, s)
  end.

Definition iterm_step (s : istate) (t : iterm) : res (list N) :=
  match t with
  | TNone => Ok []
  | TCount =>
      Ok [N.of_nat (match s with
                    | SRows it => rows_len it | SCol it => col_len it
                    | SCells it => flat_len rows_ops it end)]
  | TLast =>
      match s with
      | SRows it => p <- rows_next_back it ;; Ok (enc_yield (YRow (fst p)))
      | SCol it => p <- col_next_back it ;; Ok (enc_yield (YCell (fst p)))
      | SCells it => p <- flat_next_back rows_ops it ;; Ok (enc_yield (YCell (fst p)))
      end
  | TFold =>
      match s with
      | SRows it => l <- rows_fold it ;; Ok (e_list (fun w => [N.of_nat (off w); N.of_nat (len w)]) l)
      | SCol it => l <- col_fold it ;; Ok (e_natlist l)
      | SCells it => l <- flat_fold rows_ops it ;; Ok (e_natlist l)
      end
  | TRfold =>
      match s with
      | SRows it => l <- rows_rfold it ;; Ok (e_list (fun w => [N.of_nat (off w); N.of_nat (len w)]) l)
      | SCol it => l <- col_fold it ;; Ok (e_natlist l)   (* not generated for columns *)
      | SCells it => l <- flat_rfold rows_ops it ;; Ok (e_natlist l)
      end
  end.

(** the marker a mutable iteration writes through what call number [k] yielded *)
Definition mark (k : nat) (x : N) : N := (x + 1000 * N.of_nat (S k))%N.
Fixpoint mark_range (k : nat) (o n : nat) (b : list N) : list N :=
  match n with
  | 0 => b
  | S n' => match nth_error b o with
            | Some x => mark_range k (S o) n' (upd o (mark k x) b)
            | None => b
            end
  end.
Definition apply_mark (k : nat) (y : iyield) (b : list N) : list N :=
  match y with
  | YRow (Some w) => mark_range k (off w) (len w) b
  | YCell (Some i) => mark_range k i 1 b
  (* col_mut(c)[i] += mark: IndexMut writes through to the indexed cell *)
  | YIdx (Ok i) => mark_range k i 1 b
  | _ => b
  end.

Fixpoint icalls (dbg mutable : bool) (k : nat) (s : istate) (cs : list icall) (b : list N)
  : res (list N * istate * list N) :=
  match cs with
  | [] => Ok ([], s, b)
  | c :: tl =>
      r <- icall_step dbg s c ;;
      let '(y, s') := r in
      let b' := if mutable then apply_mark k y b else b in
      rest <- icalls dbg mutable (S k) s' tl b' ;;
      let '(o, s'', b'') := rest in
      Ok (enc_yield y ++ o, s'', b'')
  end.

Record icase : Type := mkICase {
  ic_dbg : bool; ic_recv : nat; ic_mut : bool; ic_C : nat; ic_R : nat;
  ic_win : N * N * N * N; ic_kind : ikind; ic_col : N;
  ic_calls : list icall; ic_term : iterm;
}.

Definition p_icall : parser icall :=
  c <~ p_nat ;; n <~ p_N ;;
  p_ret (match c with
         | 0 => INext | 1 => INextBack | 2 => INth n | 3 => INthBack n | 4 => ILen | _ => IIndex n
         end).
Definition p_icase : parser icase :=
  dbg <~ p_bool ;; rk <~ p_nat ;; mu <~ p_bool ;; C <~ p_nat ;; R <~ p_nat ;;
  s0 <~ p_N ;; s1 <~ p_N ;; e0 <~ p_N ;; e1 <~ p_N ;;
  ik <~ p_nat ;; ci <~ p_N ;; calls <~ p_list p_icall ;; t <~ p_nat ;;
  p_ret (mkICase dbg rk mu C R (s0, s1, e0, e1)
           (match ik with 0 => ItRows | 1 => ItCol | _ => ItCells end) ci calls
           (match t with 0 => TCount | 1 => TLast | 2 => TFold | 3 => TRfold | _ => TNone end)).

(** the receiver: the owned array itself or a window of it *)
Definition ic_receiver (c : icase) : res (rkind * view) :=
  let parent := view_of_owned (ic_C c) (ic_R c) (ic_C c * ic_R c) in
  let '(s0, s1, e0, e1) := ic_win c in
  match ic_recv c with
  | 0 => Ok (KOwned, parent)
  | 1 => v <- view_of KOwned false parent s0 s1 e0 e1 ;; Ok (KView, v)
  (* TooDeeView::new / TooDeeViewMut::new over a slice with [s0] spare cells after the array *)
  | 3 => v <- view_new (N.of_nat (ic_C c)) (N.of_nat (ic_R c)) (ic_C c * ic_R c + N.to_nat s0) ;; Ok (KView, v)
  | 4 => v <- view_new (N.of_nat (ic_C c)) (N.of_nat (ic_R c)) (ic_C c * ic_R c + N.to_nat s0) ;; Ok (KViewMut, v)
  | _ => v <- view_of KOwned true parent s0 s1 e0 e1 ;; Ok (KViewMut, v)
  end.

Definition ic_start (c : icase) : res istate :=
  kv <- ic_receiver c ;;
  let '(k, v) := kv in
  match ic_kind c with
  | ItRows => it <- v_rows v ;; Ok (SRows it)
  | ItCol => it <- v_col k v (ic_col c) ;; Ok (SCol it)
  | ItCells => it <- v_cells v ;; Ok (SCells it)
  end.

Definition iter_model (inp : list N) : list N :=
  match run_parser p_icase inp with
  | None => BAD_CASE
  | Some c =>
      match ic_start c with
      | Panic => [0%N]
      | UB => [777771%N]
      | Ok s0 =>
          let spare := match ic_recv c with 3 | 4 => N.to_nat (fst (fst (fst (ic_win c)))) | _ => 0 end in
          let b0 := map N.of_nat (seq 0 (ic_C c * ic_R c + spare)) in
          match (r <- icalls (ic_dbg c) (ic_mut c) 0 s0 (ic_calls c) b0 ;;
                 let '(o, s, b) := r in
                 t <- iterm_step s (ic_term c) ;;
                 Ok (o ++ t ++ (if ic_mut c then e_Nlist b else []))) with
          | Ok l => 1%N :: l
          | Panic => [777770%N]
          | UB => [777771%N]
          end
      end
  end.
