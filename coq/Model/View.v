(** Model of src/view.rs: view geometry, the view constructors and the accessors of views.
    A view is a window into a root buffer plus dimensions and a stride; an owned array seen
    through the traits is the full window with stride = num_cols.  Definitions only. *)
From TD Require Import Base.Prelude Model.Iter Model.Flatten.

Record view : Type := mkView { vw : sl; vcols : nat; vrows : nat; vstride : nat }.

(** which implementor's code runs *)
Inductive rkind : Type := KOwned | KView | KViewMut | KThird.

(* view.rs calculate_view_dimensions (repaired: empty windows use the empty range at 0) *)
Definition calc_view_dims (s0 s1 e0 e1 : N) (cols rows stride : nat)
  : res (nat * nat * nat * nat) :=   (* cols, rows, range start, range end *)
  _ <- assert (s0 <=? e0)%N ;;
  _ <- assert (s1 <=? e1)%N ;;
  _ <- assert (e0 <=? N.of_nat cols)%N ;;
  _ <- assert (e1 <=? N.of_nat rows)%N ;;
  _ <- assert (cols <=? stride) ;;
  let nc := N.to_nat e0 - N.to_nat s0 in
  let nr := N.to_nat e1 - N.to_nat s1 in
  let '(nc, nr) := if (nc =? 0) || (nr =? 0) then (0, 0) else (nc, nr) in
  let '(ds, dl) := if nr =? 0 then (0, 0)
                   else (N.to_nat s1 * stride + N.to_nat s0, (nr - 1) * stride + nc) in
  Ok (nc, nr, ds, ds + dl).

(** [view] / [view_mut] on each receiver kind (view.rs 141-152, 167-177, 301-312, 327-335,
    387-397).  [mutable] selects view_mut.  TooDeeViewMut::view uses checked indexing. *)
Definition view_of (k : rkind) (mutable : bool) (p : view) (s0 s1 e0 e1 : N) : res view :=
  d <- calc_view_dims s0 s1 e0 e1 (vcols p) (vrows p) (vstride p) ;;
  let '(nc, nr, a, b) := d in
  w <- (match k, mutable with
        | KViewMut, false => index_range (vw p) a b
        | _, _ => get_range (vw p) a b
        end) ;;
  Ok (mkView w nc nr (vstride p)).

(* view.rs TooDeeView::new / TooDeeViewMut::new over a slice of length [slen] *)
Definition view_new (c r : N) (slen : nat) : res view :=
  _ <- (if (c =? 0)%N || (r =? 0)%N then assert (r =? c)%N else Ok tt) ;;
  match checked_mul c r with
  | None => Panic
  | Some size =>
      _ <- assert (size <=? N.of_nat slen)%N ;;
      Ok (mkView (mkSl 0 (N.to_nat size)) (N.to_nat c) (N.to_nat r) (N.to_nat c))
  end.

(** the owned array as a receiver of trait operations *)
Definition view_of_owned (cols rows len_ : nat) : view := mkView (mkSl 0 len_) cols rows cols.

(* Index<usize> (toodee.rs 68-75, view.rs 231-237, 488-494, 510-516) *)
Definition v_index_row (v : view) (row : N) : res sl :=
  _ <- assert (row <? N.of_nat (vrows v))%N ;;
  let start := N.to_nat row * vstride v in
  get_range (vw v) start (start + vcols v).
(* Index<Coordinate> *)
Definition v_index_coord (v : view) (c r : N) : res nat :=
  _ <- assert (r <? N.of_nat (vrows v))%N ;;
  _ <- assert (c <? N.of_nat (vcols v))%N ;;
  let i := N.to_nat r * vstride v + N.to_nat c in
  _ <- require (i <? len (vw v)) ;; Ok (off (vw v) + i).
(* get_unchecked_row / get_unchecked: no assertion; [None] when the coordinate is so large
   that the product cannot be a [nat] of buffer size (then the access is out of bounds) *)
Definition v_get_unchecked_row (v : view) (row : nat) : res sl :=
  let start := row * vstride v in get_range (vw v) start (start + vcols v).
Definition v_get_unchecked (v : view) (c r : nat) : res nat :=
  let i := r * vstride v + c in
  _ <- require (i <? len (vw v)) ;; Ok (off (vw v) + i).

(* rows() / rows_mut() *)
Definition v_rows (v : view) : res rows_it :=
  k <- usub (vstride v) (vcols v) ;; Ok (mkRows (vw v) (vcols v) k).
(* col() / col_mut(): TooDee computes the range from data.len() (toodee.rs 200-208), the
   views through get_col_params (view.rs 60-73) *)
Definition v_col (k : rkind) (v : view) (c : N) : res col_it :=
  _ <- assert (c <? N.of_nat (vcols v))%N ;;
  match k with
  | KOwned =>
      e <- usub (len (vw v)) (vcols v) ;;
      w <- get_range (vw v) (N.to_nat c) (e + N.to_nat c + 1) ;;
      s <- usub (vcols v) 1 ;;
      Ok (mkCol w s)
  | _ =>
      let start := N.to_nat c in
      let e := if vrows v =? 0 then start else start + (vrows v - 1) * vstride v + 1 in
      w <- get_range (vw v) start e ;;
      s <- usub (vstride v) 1 ;;
      Ok (mkCol w s)
  end.
(* cells() / cells_mut() *)
Definition v_cells (v : view) : res (flat (I:=rows_it)) :=
  r <- v_rows v ;; Ok (flat_new r).

(** geometry the specifications speak about: absolute index of cell (c, r) *)
Definition v_cell (v : view) (c r : nat) : nat := off (vw v) + r * vstride v + c.
