(** src/flattenexact.rs once more over binary numbers: [cells()] / [cells_mut()] of arrays
    and windows of any size (2^63 cells and beyond on zero-sized elements).  The same
    branches as Model/Flatten.v instantiated with the row cursor; the [loop] of next /
    next_back is unrolled twice - a row cursor that yields a row yields a non-empty one, so
    a third turn would mean a row of width zero, reported as UB here and excluded by the
    refinement theorem's hypothesis (Proofs/BigFlatRefine.v).  Definitions only. *)
From TD Require Import Base.Prelude Model.Iter Model.Flatten Model.BigIter.
Local Open Scope N_scope.

(** slice::Iter over a window *)
Definition bsi_next (s : bsl) : option N * bsl :=
  if bsl_is_empty s then (None, s) else (Some (boff s), mkBsl (boff s + 1) (blen s - 1)).
Definition bsi_next_back (s : bsl) : option N * bsl :=
  if bsl_is_empty s then (None, s) else (Some (boff s + (blen s - 1)), mkBsl (boff s) (blen s - 1)).
Definition bsi_nth (s : bsl) (n : N) : option N * bsl :=
  if blen s <=? n then (None, mkBsl (boff s + blen s) 0)
  else bsi_next (mkBsl (boff s + n) (blen s - n)).
Definition bsi_nth_back (s : bsl) (n : N) : option N * bsl :=
  if blen s <=? n then (None, mkBsl (boff s) 0)
  else bsi_next_back (mkBsl (boff s) (blen s - n)).

Record bflat : Type := mkBflat { bfiter : brows; bffront : option bsl; bfback : option bsl }.
Definition bflat_new (it : brows) : bflat := mkBflat it None None.

Definition btry (step : bsl -> option N * bsl) (o : option bsl) : option (N * bsl) :=
  match o with
  | Some inner => match step inner with (Some c, inner') => Some (c, inner') | (None, _) => None end
  | None => None
  end.

(* flattenexact.rs 40-52 *)
Definition bflat_next (s : bflat) : res (option N * bflat) :=
  match btry bsi_next (bffront s) with
  | Some (c, inner') => Ok (Some c, mkBflat (bfiter s) (Some inner') (bfback s))
  | None =>
      r <- brows_next (bfiter s) ;;
      match r with
      | (None, it') =>
          match bfback s with
          | None => Ok (None, mkBflat it' (bffront s) None)
          | Some b => let '(c, b') := bsi_next b in Ok (c, mkBflat it' (bffront s) (Some b'))
          end
      | (Some inner, it') =>
          match bsi_next inner with
          | (Some c, inner') => Ok (Some c, mkBflat it' (Some inner') (bfback s))
          | (None, _) => UB
          end
      end
  end.

(* flattenexact.rs 129-141 *)
Definition bflat_next_back (s : bflat) : res (option N * bflat) :=
  match btry bsi_next_back (bfback s) with
  | Some (c, inner') => Ok (Some c, mkBflat (bfiter s) (bffront s) (Some inner'))
  | None =>
      r <- brows_next_back (bfiter s) ;;
      match r with
      | (None, it') =>
          match bffront s with
          | None => Ok (None, mkBflat it' None (bfback s))
          | Some b => let '(c, b') := bsi_next_back b in Ok (c, mkBflat it' (Some b') (bfback s))
          end
      | (Some inner, it') =>
          match bsi_next_back inner with
          | (Some c, inner') => Ok (Some c, mkBflat it' (bffront s) (Some inner'))
          | (None, _) => UB
          end
      end
  end.

Definition bolen (o : option bsl) : N := match o with Some i => blen i | None => 0 end.

(* flattenexact.rs 55-60 *)
Definition bflat_len (s : bflat) : N :=
  brcols (bfiter s) * brows_len (bfiter s) + bolen (bffront s) + bolen (bfback s).

(* flattenexact.rs 68-98 *)
Definition bflat_nth (dbg : bool) (s : bflat) (n : N) : res (option N * bflat) :=
  let num_cols := brcols (bfiter s) in
  if num_cols =? 0 then Ok (None, s)
  else
    let front_step :=
      match bffront s with
      | Some inner =>
          if n <? blen inner then inl (bsi_nth inner n)
          else inr (n - blen inner, @None bsl)
      | None => inr (n, None)
      end in
    match front_step with
    | inl (c, inner') => Ok (c, mkBflat (bfiter s) (Some inner') (bfback s))
    | inr (n1, front1) =>
        let iter_skip := N.min (brows_len (bfiter s)) (n1 / num_cols) in
        r <- brows_nth (bfiter s) iter_skip ;;
        match r with
        | (Some inner, it') =>
            let n2 := n1 - iter_skip * num_cols in
            _ <- (if dbg then assert (n2 <? blen inner) else Ok tt) ;;
            let '(c, tmp) := bsi_nth inner n2 in
            Ok (c, mkBflat it' (Some tmp) (bfback s))
        | (None, it') =>
            let n2 := n1 - iter_skip * num_cols in
            match bfback s with
            | None => Ok (None, mkBflat it' front1 None)
            | Some b => let '(c, b') := bsi_nth b n2 in Ok (c, mkBflat it' front1 (Some b'))
            end
        end
    end.

(* flattenexact.rs 144-174 *)
Definition bflat_nth_back (dbg : bool) (s : bflat) (n : N) : res (option N * bflat) :=
  let num_cols := brcols (bfiter s) in
  if num_cols =? 0 then Ok (None, s)
  else
    let back_step :=
      match bfback s with
      | Some inner =>
          if n <? blen inner then inl (bsi_nth_back inner n)
          else inr (n - blen inner, @None bsl)
      | None => inr (n, None)
      end in
    match back_step with
    | inl (c, inner') => Ok (c, mkBflat (bfiter s) (bffront s) (Some inner'))
    | inr (n1, back1) =>
        let iter_skip := N.min (brows_len (bfiter s)) (n1 / num_cols) in
        r <- brows_nth_back (bfiter s) iter_skip ;;
        match r with
        | (Some inner, it') =>
            let n2 := n1 - iter_skip * num_cols in
            _ <- (if dbg then assert (n2 <? blen inner) else Ok tt) ;;
            let '(c, tmp) := bsi_nth_back inner n2 in
            Ok (c, mkBflat it' (bffront s) (Some tmp))
        | (None, it') =>
            let n2 := n1 - iter_skip * num_cols in
            match bffront s with
            | None => Ok (None, mkBflat it' None back1)
            | Some b => let '(c, b') := bsi_nth_back b n2 in Ok (c, mkBflat it' (Some b') back1)
            end
        end
    end.

(** what the unary model sees *)
Definition flat_of (s : bflat) : flat (I:=rows_it) :=
  mkFlat (rows_of (bfiter s)) (option_map sl_of (bffront s)) (option_map sl_of (bfback s)).
