(** Model of the trait algorithms (src/ops.rs, copy.rs, translate.rs, sort.rs) and of the
    overrides in toodee.rs / view.rs, over a root buffer [b : list N] and a receiver
    [(k, v)].  Each function mirrors the code path of the implementor [k] that runs.
    Definitions only. *)
From TD Require Import Base.Prelude Model.Iter Model.Flatten Model.View.

Definition buf := list N.

(** * Buffer primitives (std, by documented behaviour) *)
Definition read_win (b : buf) (w : sl) : res (list N) :=
  if off w + len w <=? length b then Ok (slice (off w) (len w) b) else UB.
Definition write_win (b : buf) (w : sl) (xs : list N) : res buf :=
  if (off w + len w <=? length b) && (length xs =? len w) then Ok (splice (off w) xs b) else UB.
(** ptr::swap of two cells *)
Definition swap_cells (b : buf) (i j : nat) : res buf :=
  match nth_error b i, nth_error b j with
  | Some x, Some y => Ok (upd j x (upd i y b))
  | _, _ => UB
  end.
(** swap_with_slice / swap_nonoverlapping of two windows of equal length *)
Definition swap_wins (b : buf) (w1 w2 : sl) : res buf :=
  if negb (len w1 =? len w2) then Panic
  else
    x1 <- read_win b w1 ;; x2 <- read_win b w2 ;;
    b1 <- write_win b w1 x2 ;; write_win b1 w2 x1.
Definition sub_win (w : sl) (a n : nat) : res sl :=   (* get_unchecked_mut(a..a+n) *)
  get_range w a (a + n).
(** [get_unchecked_mut(i)] on a row slice *)
Definition cell_of (w : sl) (i : nat) : res nat := if i <? len w then Ok (off w + i) else UB.

(** all row windows through [rows_mut()] and the default [for r in ...] loop *)
Definition all_rows (v : view) : res (list sl) := it <- v_rows v ;; rows_fold it.

Fixpoint for_rows (f : buf -> sl -> res buf) (rows : list sl) (b : buf) : res buf :=
  match rows with
  | [] => Ok b
  | w :: tl => b' <- f b w ;; for_rows f tl b'
  end.

(** [Option::unwrap] *)
Definition unwrap {X} (o : option X) : res X := match o with Some x => Ok x | None => Panic end.

(** two rows through [rows_mut().nth(a)] then [.nth(d)] (ops.rs swap, swap_rows, row_pair_mut) *)
Definition nth_then_nth (v : view) (a d : N) : res (sl * sl) :=
  it <- v_rows v ;;
  p1 <- rows_nth it a ;;
  w1 <- unwrap (fst p1) ;;
  p2 <- rows_nth (snd p1) d ;;
  w2 <- unwrap (fst p2) ;;
  Ok (w1, w2).

(** * fill (toodee.rs 300-303, ops.rs 183-188) *)
Definition op_fill (k : rkind) (v : view) (b : buf) (x : N) : res buf :=
  match k with
  | KOwned => write_win b (vw v) (repeat x (len (vw v)))
  | _ => rows <- all_rows v ;; for_rows (fun b w => write_win b w (repeat x (len w))) rows b
  end.

(** * swap_rows: three implementations (toodee.rs 321-340, view.rs 433-452, ops.rs 274-284),
    all repaired (D2) to check bounds when r1 == r2 *)
Definition op_swap_rows (k : rkind) (v : view) (b : buf) (r1 r2 : N) : res buf :=
  if (r1 =? r2)%N then _ <- assert (r1 <? N.of_nat (vrows v))%N ;; Ok b
  else
    let '(r1, r2) := if (r2 <? r1)%N then (r2, r1) else (r1, r2) in
    match k with
    | KOwned =>
        _ <- assert (r2 <? N.of_nat (vrows v))%N ;;
        let nc := vcols v in
        rest0 <- get_from (vw v) (N.to_nat r1 * nc) ;;
        p <- split_at rest0 nc ;;
        let '(first, rest) := p in
        let snd_idx := (N.to_nat r2 - N.to_nat r1 - 1) * nc in
        second <- sub_win rest snd_idx nc ;;
        swap_wins b first second
    | KViewMut =>
        _ <- assert (r2 <? N.of_nat (vrows v))%N ;;
        let nc := vcols v in
        rest0 <- get_from (vw v) (N.to_nat r1 * vstride v) ;;
        p <- split_at rest0 nc ;;
        let '(first, rest) := p in
        snd_idx <- usub ((N.to_nat r2 - N.to_nat r1) * vstride v) nc ;;
        second <- sub_win rest snd_idx nc ;;
        swap_wins b first second
    | _ =>
        p <- nth_then_nth v r1 (r2 - r1 - 1)%N ;;
        swap_wins b (fst p) (snd p)
    end.

(** * swap (toodee.rs 385-395, ops.rs 233-255) *)
Definition op_swap (k : rkind) (v : view) (b : buf) (c1 r1 c2 r2 : N) : res buf :=
  match k with
  | KOwned =>
      _ <- assert ((c1 <? N.of_nat (vcols v))%N && (c2 <? N.of_nat (vcols v))%N) ;;
      _ <- assert ((r1 <? N.of_nat (vrows v))%N && (r2 <? N.of_nat (vrows v))%N) ;;
      pa <- v_get_unchecked v (N.to_nat c1) (N.to_nat r1) ;;
      pb <- v_get_unchecked v (N.to_nat c2) (N.to_nat r2) ;;
      swap_cells b pa pb
  | _ =>
      let '(c1, r1, c2, r2) := if (r2 <? r1)%N then (c2, r2, c1, r1) else (c1, r1, c2, r2) in
      _ <- assert ((c1 <? N.of_nat (vcols v))%N && (c2 <? N.of_nat (vcols v))%N) ;;
      it <- v_rows v ;;
      p1 <- rows_nth it r1 ;;
      row1 <- unwrap (fst p1) ;;
      if (r1 =? r2)%N then
        pa <- cell_of row1 (N.to_nat c1) ;; pb <- cell_of row1 (N.to_nat c2) ;; swap_cells b pa pb
      else
        p2 <- rows_nth (snd p1) (r2 - r1 - 1)%N ;;
        row2 <- unwrap (fst p2) ;;
        pa <- cell_of row1 (N.to_nat c1) ;; pb <- cell_of row2 (N.to_nat c2) ;; swap_cells b pa pb
  end.

(** * swap_cols (ops.rs 204-217; no override) *)
Definition op_swap_cols (v : view) (b : buf) (c1 c2 : N) : res buf :=
  _ <- assert (c1 <? N.of_nat (vcols v))%N ;;
  _ <- assert (c2 <? N.of_nat (vcols v))%N ;;
  rows <- all_rows v ;;
  for_rows (fun b w => pa <- cell_of w (N.to_nat c1) ;; pb <- cell_of w (N.to_nat c2) ;; swap_cells b pa pb)
           rows b.

(** * row_pair_mut (ops.rs 301-315; no override) *)
Definition op_row_pair (v : view) (r1 r2 : N) : res (sl * sl) :=
  _ <- assert (r1 <? N.of_nat (vrows v))%N ;;
  _ <- assert (r2 <? N.of_nat (vrows v))%N ;;
  _ <- assert (negb (r1 =? r2)%N) ;;
  if (r1 <? r2)%N then nth_then_nth v r1 (r2 - r1 - 1)%N
  else p <- nth_then_nth v r2 (r1 - r2 - 1)%N ;; Ok (snd p, fst p).

(** * copy operations (copy.rs) *)
Fixpoint zip_copy (rows : list sl) (chunks : list (list N)) (b : buf) : res buf :=
  match rows, chunks with
  | w :: rt, c :: ct =>
      (* d.copy_from_slice(s): panics when the lengths differ *)
      _ <- assert (len w =? length c) ;;
      b' <- write_win b w c ;; zip_copy rt ct b'
  | _, _ => Ok b
  end.

(* copy_from_slice / clone_from_slice: TooDee fast path and (repaired, D10) default *)
Definition op_copy_from_slice (k : rkind) (v : view) (b : buf) (src : list N) : res buf :=
  match k with
  | KOwned => _ <- assert (len (vw v) =? length src) ;; write_win b (vw v) src
  | _ =>
      let cols := vcols v in
      _ <- assert (cols * vrows v =? length src) ;;
      if cols =? 0 then Ok b
      else rows <- all_rows v ;; zip_copy rows (chunks (length src / cols) cols src) b
  end.

(* copy_from_toodee / clone_from_toodee: [srows] are the source's rows as yielded by its
   rows() iterator, [ssize] its size() *)
Fixpoint owned_copy_rows (w : sl) (nc : nat) (srows : list (list N)) (b : buf) : res buf :=
  match srows with
  | [] => Ok b
  | r :: tl =>
      p <- split_at w nc ;;
      _ <- assert (len (fst p) =? length r) ;;
      b' <- write_win b (fst p) r ;;
      owned_copy_rows (snd p) nc tl b'
  end.
Definition op_copy_from_toodee (k : rkind) (v : view) (b : buf)
  (ssize : nat * nat) (srows : list (list N)) : res buf :=
  _ <- assert ((vcols v =? fst ssize) && (vrows v =? snd ssize)) ;;
  match k with
  | KOwned => owned_copy_rows (vw v) (vcols v) srows b
  | _ => rows <- all_rows v ;; zip_copy rows srows b
  end.

(* copy_within (copy.rs 108-144); [oc] = overflow checks (the two assertions on the
   destination use checked_add since the D14 repair: they reject in either mode) *)
Definition copy_row_to_row (b : buf) (s d : sl) (sx0 sx1 dx cols : nat) : res buf :=
  dw <- index_range d dx (dx + cols) ;;
  sw <- index_range s sx0 sx1 ;;
  _ <- assert (len dw =? len sw) ;;
  xs <- read_win b sw ;; write_win b dw xs.

Fixpoint copy_within_rows (v : view) (rs : list nat) (down : bool) (off_ : nat)
  (sx0 sx1 dx cols : nat) (b : buf) : res buf :=
  match rs with
  | [] => Ok b
  | r :: tl =>
      let r2 := if down then r + off_ else r - off_ in
      p <- op_row_pair v (N.of_nat r) (N.of_nat r2) ;;
      b' <- copy_row_to_row b (fst p) (snd p) sx0 sx1 dx cols ;;
      copy_within_rows v tl down off_ sx0 sx1 dx cols b'
  end.

Fixpoint copy_within_same (v : view) (rs : list nat) (sx0 sx1 dx : nat) (b : buf) : res buf :=
  match rs with
  | [] => Ok b
  | r :: tl =>
      w <- v_index_row v (N.of_nat r) ;;
      (* slice::copy_within(src_range, dest): memmove; panics if out of bounds *)
      _ <- assert ((sx0 <=? sx1) && (sx1 <=? len w) && (dx + (sx1 - sx0) <=? len w)) ;;
      xs <- read_win b (mkSl (off w + sx0) (sx1 - sx0)) ;;
      b' <- write_win b (mkSl (off w + dx) (sx1 - sx0)) xs ;;
      copy_within_same v tl sx0 sx1 dx b'
  end.

Definition op_copy_within (oc : bool) (v : view) (b : buf) (x0 y0 x1 y1 dx dy : N) : res buf :=
  _ <- assert (x0 <=? x1)%N ;;
  _ <- assert (y0 <=? y1)%N ;;
  _ <- assert (x1 <=? N.of_nat (vcols v))%N ;;
  _ <- assert (y1 <=? N.of_nat (vrows v))%N ;;
  let cols := (x1 - x0)%N in
  let rows := (y1 - y0)%N in
  e0 <- cadd dx cols ;;
  _ <- assert (e0 <=? N.of_nat (vcols v))%N ;;
  e1 <- cadd dy rows ;;
  _ <- assert (e1 <=? N.of_nat (vrows v))%N ;;
  let rs := seq (N.to_nat y0) (N.to_nat rows) in
  if (y0 <? dy)%N then
    (* unreachable with wrapped sums only when the row range is empty *)
    match rs with
    | [] => Ok b
    | _ => copy_within_rows v (rev rs) true (N.to_nat dy - N.to_nat y0)
             (N.to_nat x0) (N.to_nat x1) (N.to_nat dx) (N.to_nat cols) b
    end
  else if (dy <? y0)%N then
    copy_within_rows v rs false (N.to_nat y0 - N.to_nat dy)
      (N.to_nat x0) (N.to_nat x1) (N.to_nat dx) (N.to_nat cols) b
  else
    match rs with
    | [] => Ok b
    | _ => copy_within_same v rs (N.to_nat x0) (N.to_nat x1) (N.to_nat dx) b
    end.

(** ** copy_within with destination corners of any magnitude (values near usize::MAX).
    The same statements once more with every caller-supplied quantity kept in binary and
    compared before it is converted.  A panic inside the loop would leave the rows copied so
    far in place: the result is [Ok (panicked, buffer)] (since the D14 repair the two
    checked sums reject every destination that does not fit before the first row). *)
Definition index_range_N (s : sl) (a b : N) : res sl :=
  if ((a <=? b) && (b <=? N.of_nat (len s)))%N then index_range s (N.to_nat a) (N.to_nat b) else Panic.

Definition copy_row_to_row_w (b : buf) (s d : sl) (sx0 sx1 : nat) (dx e0 : N) : res buf :=
  dw <- index_range_N d dx e0 ;;
  sw <- index_range s sx0 sx1 ;;
  _ <- assert (len dw =? len sw) ;;
  xs <- read_win b sw ;; write_win b dw xs.

Definition cw_step_w (oc : bool) (v : view) (down : bool) (off_ : N) (sx0 sx1 : nat) (dx e0 : N)
  (r : nat) (b : buf) : res buf :=
  r2 <- (if down then uadd oc (N.of_nat r) off_ else Ok (N.of_nat r - off_)%N) ;;
  p <- op_row_pair v (N.of_nat r) r2 ;;
  copy_row_to_row_w b (fst p) (snd p) sx0 sx1 dx e0.

Definition cw_same_step_w (v : view) (sx0 sx1 : nat) (dx : N) (r : nat) (b : buf) : res buf :=
  w <- v_index_row v (N.of_nat r) ;;
  (* slice::copy_within: count = end - start; assert!(dest <= len - count) *)
  _ <- assert ((sx0 <=? sx1) && (sx1 <=? len w)) ;;
  _ <- assert (dx <=? N.of_nat (len w - (sx1 - sx0)))%N ;;
  xs <- read_win b (mkSl (off w + sx0) (sx1 - sx0)) ;;
  write_win b (mkSl (off w + N.to_nat dx) (sx1 - sx0)) xs.

(** a loop of fallible steps that stops at the first panic, keeping what was written *)
Fixpoint steps_w (step : nat -> buf -> res buf) (rs : list nat) (b : buf) : res (bool * buf) :=
  match rs with
  | [] => Ok (false, b)
  | r :: tl =>
      match step r b with
      | Ok b' => steps_w step tl b'
      | Panic => Ok (true, b)
      | UB => UB
      end
  end.

Definition copy_within_rows_w (oc : bool) (v : view) (rs : list nat) (down : bool) (off_ : N)
  (sx0 sx1 : nat) (dx e0 : N) (b : buf) : res (bool * buf) :=
  steps_w (cw_step_w oc v down off_ sx0 sx1 dx e0) rs b.
Definition copy_within_same_w (v : view) (rs : list nat) (sx0 sx1 : nat) (dx : N) (b : buf) : res (bool * buf) :=
  steps_w (cw_same_step_w v sx0 sx1 dx) rs b.

Definition op_copy_within_w (oc : bool) (v : view) (b : buf) (x0 y0 x1 y1 dx dy : N) : res (bool * buf) :=
  match (_ <- assert (x0 <=? x1)%N ;;
         _ <- assert (y0 <=? y1)%N ;;
         _ <- assert (x1 <=? N.of_nat (vcols v))%N ;;
         _ <- assert (y1 <=? N.of_nat (vrows v))%N ;;
         let cols := (x1 - x0)%N in
         let rows := (y1 - y0)%N in
         e0 <- cadd dx cols ;;
         _ <- assert (e0 <=? N.of_nat (vcols v))%N ;;
         e1 <- cadd dy rows ;;
         _ <- assert (e1 <=? N.of_nat (vrows v))%N ;;
         let rs := seq (N.to_nat y0) (N.to_nat rows) in
         if (y0 <? dy)%N then
           copy_within_rows_w oc v (rev rs) true (dy - y0)%N (N.to_nat x0) (N.to_nat x1) dx e0 b
         else if (dy <? y0)%N then
           copy_within_rows_w oc v rs false (y0 - dy)%N (N.to_nat x0) (N.to_nat x1) dx e0 b
         else copy_within_same_w v rs (N.to_nat x0) (N.to_nat x1) dx b) with
  | Panic => Ok (true, b)
  | r => r
  end.

(** ** clone_from_slice / clone_from_toodee interrupted by a panicking Clone (C11).
    Every implementation clones cell by cell in row-major order of the receiver
    ([recv_cells]); when the k-th call panics the first k cells hold their new values
    (taken from [b'], the buffer the completed call would leave) and the rest are untouched *)
Definition recv_cells (v : view) : list nat :=
  flat_map (fun r => map (fun c => v_cell v c r) (seq 0 (vcols v))) (seq 0 (vrows v)).
Definition partial_clone (b b' : buf) (pos : list nat) (k : nat) : buf :=
  fold_left (fun acc i => match nth_error b' i with Some x => upd i x acc | None => acc end)
            (firstn k pos) b.

(** * translate_with_wrap, flip_rows, flip_cols (translate.rs) *)
Definition rotate_win (b : buf) (w : sl) (mid : nat) : res buf :=
  _ <- assert (mid <=? len w) ;;
  xs <- read_win b w ;; write_win b w (rotate_left mid xs).

(** one pass of the inner [loop]; fuel bounds the number of iterations *)
Fixpoint translate_inner (fuel : nat) (v : view) (nc nr col_mid adj : nat)
  (base next mid swap_count : nat) (b : buf) : res (buf * nat) :=
  match fuel with
  | 0 => UB     (* the loop did not terminate within num_rows + 1 iterations *)
  | S f =>
      let next := if nr <=? next then next - nr else next in
      let swap_count := swap_count + 1 in
      if base =? next then
        b' <- (if 0 <? mid then w <- v_get_unchecked_row v base ;; rotate_win b w mid else Ok b) ;;
        Ok (b', swap_count)
      else
        p <- op_row_pair v (N.of_nat base) (N.of_nat next) ;;
        let '(base_ref, next_ref) := p in
        b1 <- (if 0 <? mid then
                 a <- get_to base_ref mid ;;
                 k <- usub nc mid ;;
                 c <- get_range next_ref k nc ;;
                 swap_wins b a c
               else Ok b) ;;
        b2 <- (if mid <? nc then
                 a <- get_range base_ref mid nc ;;
                 k <- usub nc mid ;;
                 c <- get_to next_ref k ;;
                 swap_wins b1 a c
               else Ok b1) ;;
        let mid := mid + col_mid in
        let mid := if nc <=? mid then mid - nc else mid in
        translate_inner f v nc nr col_mid adj base (next + adj) mid swap_count b2
  end.

Fixpoint translate_outer (fuel : nat) (v : view) (nc nr col_mid adj : nat)
  (base swap_count : nat) (b : buf) : res buf :=
  match fuel with
  | 0 => UB
  | S f =>
      if swap_count <? nr then
        r <- translate_inner (S nr) v nc nr col_mid adj base (base + adj) col_mid swap_count b ;;
        let '(b', sc) := r in
        if nr <=? sc then Ok b' else translate_outer f v nc nr col_mid adj (base + 1) sc b'
      else Ok b
  end.

Definition op_translate (v : view) (b : buf) (mc mr : N) : res buf :=
  let nc := vcols v in
  let nr := vrows v in
  _ <- assert (mc <=? N.of_nat nc)%N ;;
  _ <- assert (mr <=? N.of_nat nr)%N ;;
  let col_mid := if (mc =? N.of_nat nc)%N then 0 else N.to_nat mc in
  let row_mid := if (mr =? N.of_nat nr)%N then 0 else N.to_nat mr in
  if row_mid =? 0 then
    if negb (col_mid =? 0) then
      rows <- all_rows v ;; for_rows (fun b w => rotate_win b w col_mid) rows b
    else Ok b
  else
    translate_outer (S nr) v nc nr col_mid (nr - row_mid) 0 0 b.

(* flip_rows: while let (Some(r1), Some(r2)) = (iter.next(), iter.next_back()) *)
Fixpoint flip_rows_loop (fuel : nat) (it : rows_it) (b : buf) : res buf :=
  match fuel with
  | 0 => UB
  | S f =>
      p1 <- rows_next it ;;
      p2 <- rows_next_back (snd p1) ;;
      match fst p1, fst p2 with
      | Some r1, Some r2 => b' <- swap_wins b r1 r2 ;; flip_rows_loop f (snd p2) b'
      | _, _ => Ok b
      end
  end.
Definition op_flip_rows (v : view) (b : buf) : res buf :=
  it <- v_rows v ;; flip_rows_loop (S (vrows v)) it b.
Definition op_flip_cols (v : view) (b : buf) : res buf :=
  rows <- all_rows v ;;
  for_rows (fun b w => xs <- read_win b w ;; write_win b w (rev xs)) rows b.

(** * sort (sort.rs) *)
(* build_swap_trace on a list of pairs, with the in-place reuse of the prefix as trace
   storage; get_unchecked accesses outside the list are UB *)
Definition ord := list (nat * nat).
Definition ord_get (o : ord) (i : nat) : res (nat * nat) :=
  match nth_error o i with Some p => Ok p | None => UB end.
Definition ord_set0 (o : ord) (i x : nat) : res ord :=
  p <- ord_get o i ;; Ok (upd i (x, snd p) o).
Definition ord_set1 (o : ord) (i x : nat) : res ord :=
  p <- ord_get o i ;; Ok (upd i (fst p, x) o).

Fixpoint bst_reverse (idxs : list nat) (o : ord) : res ord :=
  match idxs with
  | [] => Ok o
  | idx :: tl => p <- ord_get o idx ;; o' <- ord_set1 o (fst p) idx ;; bst_reverse tl o'
  end.
Fixpoint bst_trace (idxs : list nat) (swap_count : nat) (o : ord) : res (ord * nat) :=
  match idxs with
  | [] => Ok (o, swap_count)
  | i :: tl =>
      p <- ord_get o i ;;
      let '(other, inv_i) := p in
      if negb (i =? other) then
        _ <- ord_get o swap_count ;;
        let o1 := upd swap_count (i, other) o in
        o3 <- (if i <? inv_i then o2 <- ord_set0 o1 inv_i other ;; ord_set1 o2 other inv_i
               else Ok o1) ;;
        bst_trace tl (S swap_count) o3
      else bst_trace tl swap_count o
  end.
Definition build_swap_trace (o : ord) : res (list (nat * nat)) :=
  let idxs := seq 0 (length o) in
  o1 <- bst_reverse idxs o ;;
  r <- bst_trace idxs 0 o1 ;;
  Ok (firstn (snd r) (fst r)).

(** the side sort [slice::sort_by] of (index, key) pairs is stable: modelled by insertion
    sort; the unstable variant's result is supplied by the observed run ([sigma]) and
    validated by the oracle *)
Fixpoint ins_stable (le : N -> N -> bool) (x : nat * N) (l : list (nat * N)) : list (nat * N) :=
  match l with
  | [] => [x]
  | y :: t => if le (snd y) (snd x) then y :: ins_stable le x t else x :: l
  end.
Definition stable_sort (le : N -> N -> bool) (l : list (nat * N)) : list (nat * N) :=
  fold_left (fun acc x => ins_stable le x acc) l [].

Definition enumerate {X} (l : list X) : list (nat * X) := combine (seq 0 (length l)) l.

(** comparator of the harness: cells of the key line are 100000 + key*1024 + position and
    compare by key; natural order ([ord] variants) compares whole values *)
Definition key_of (by_key : bool) (x : N) : N := if by_key then ((x - 100000) / 1024)%N else x.

Definition sigma_of (stable by_key : bool) (keys : list N) (sigma : list nat) : list nat :=
  if stable then
    map fst (stable_sort N.leb (enumerate (map (key_of by_key) keys)))
  else sigma.

Definition apply_trace_row (trace : list (nat * nat)) (b : buf) (w : sl) : res buf :=
  (fix go (t : list (nat * nat)) (b : buf) : res buf :=
     match t with
     | [] => Ok b
     | (i, j) :: tl => pa <- cell_of w i ;; pb <- cell_of w j ;; b' <- swap_cells b pa pb ;; go tl b'
     end) trace b.

Definition op_sort_by_row (v : view) (b : buf) (row : N) (stable by_key : bool) (sigma : list nat)
  : res buf :=
  _ <- assert (row <? N.of_nat (vrows v))%N ;;
  w <- v_index_row v row ;;
  keys <- read_win b w ;;
  let s := sigma_of stable by_key keys sigma in
  trace <- build_swap_trace (map (fun i => (i, 0)) s) ;;
  rows <- all_rows v ;;
  for_rows (apply_trace_row trace) rows b.

Definition col_cells (k : rkind) (v : view) (c : N) : res (list nat) :=
  it <- v_col k v c ;; col_fold it.
Definition read_cells (b : buf) (cells : list nat) : res (list N) :=
  (fix go (l : list nat) : res (list N) :=
     match l with
     | [] => Ok []
     | i :: tl => match nth_error b i with
                  | Some x => r <- go tl ;; Ok (x :: r)
                  | None => UB
                  end
     end) cells.

Definition op_sort_by_col (k : rkind) (v : view) (b : buf) (col : N) (stable by_key : bool)
  (sigma : list nat) : res buf :=
  _ <- assert (col <? N.of_nat (vcols v))%N ;;
  cells <- col_cells (match k with KThird => KViewMut | x => x end) v col ;;
  keys <- read_cells b cells ;;
  let s := sigma_of stable by_key keys sigma in
  trace <- build_swap_trace (map (fun i => (i, 0)) s) ;;
  (fix go (t : list (nat * nat)) (b : buf) : res buf :=
     match t with
     | [] => Ok b
     | (i, j) :: tl => b' <- op_swap_rows k v b (N.of_nat i) (N.of_nat j) ;; go tl b'
     end) trace b.
