#!/usr/bin/env python3
"""Shared orchestration for /verif checks: static gate, Coq build, Print Assumptions
parsing, harness build (both profiles) from /repo's working tree, correspondence driver,
verdict, evidence."""
import fcntl, hashlib, json, os, re, subprocess, sys, time, glob, shutil

VERIF = os.path.dirname(os.path.dirname(os.path.abspath(__file__)))
COQ = os.path.join(VERIF, "coq")
HARNESS = os.path.join(VERIF, "harness")
DRIVER = os.path.join(VERIF, "driver")
WORK = os.path.join(VERIF, "work")
REPLAYS = os.path.join(VERIF, "replays")
EVIDENCE = os.environ.get("VERIF_EVIDENCE_DIR") or os.path.join(VERIF, "evidence")   # seed runs (bin/seed_run, bin/selftest) write elsewhere: the committed evidence describes the unchanged tree

FORBIDDEN = [r"\bAdmitted\b", r"\badmit\b", r"\bAxiom\b", r"\bAxioms\b", r"\bParameter\b", r"\bParameters\b",
             r"\bConjecture\b", r"\bAdmit Obligations\b", r"Unset Guard Checking", r"bypass_check",
             r"type-in-type", r"impredicative-set", r"Unset Universe Checking", r"Unset Positivity Checking",
             r"\bgive_up\b"]
# standard-library axioms a theorem may depend on (named in the trusted base when they occur)
ALLOWED_AXIOMS = {"functional_extensionality_dep", "proof_irrelevance", "JMeq_eq", "classic",
                  "Eqdep.Eq_rect_eq.eq_rect_eq", "eq_rect_eq", "propositional_extensionality"}

ENV = dict(os.environ, CARGO_NET_OFFLINE="true")

class Lock:
    def __init__(self, name):
        os.makedirs(WORK, exist_ok=True)
        self.path = os.path.join(WORK, name + ".lock")
    def __enter__(self):
        self.f = open(self.path, "w")
        fcntl.flock(self.f, fcntl.LOCK_EX)
    def __exit__(self, *a):
        fcntl.flock(self.f, fcntl.LOCK_UN)
        self.f.close()

def run(cmd, cwd=None, timeout=3600, env=None):
    p = subprocess.run(cmd, cwd=cwd, stdout=subprocess.PIPE, stderr=subprocess.STDOUT,
                       timeout=timeout, env=env or ENV, text=True, errors="replace")
    return p.returncode, p.stdout

def strip_comments(text):
    out, depth, i = [], 0, 0
    while i < len(text):
        if text.startswith("(*", i):
            depth += 1; i += 2
        elif text.startswith("*)", i) and depth > 0:
            depth -= 1; i += 2
        else:
            if depth == 0:
                out.append(text[i])
            i += 1
    return "".join(out)

def static_gate():
    """No Admitted/admit/Axiom/Parameter/... anywhere in the development (comments excluded);
    top-level Variable/Hypothesis outside a Section are rejected too."""
    bad = []
    for f in sorted(glob.glob(os.path.join(COQ, "**", "*.v"), recursive=True)):
        txt = strip_comments(open(f).read())
        for pat in FORBIDDEN:
            for m in re.finditer(pat, txt):
                bad.append("%s: %s" % (os.path.relpath(f, VERIF), m.group(0)))
        depth = 0
        for line in txt.splitlines():
            s = line.strip()
            if re.match(r"(Section|Module)\s", s): depth += 1 if s.startswith("Section") else 0
            if re.match(r"End\s", s) and depth > 0: depth -= 1
            if depth == 0 and re.match(r"(Variable|Variables|Hypothesis|Hypotheses|Context)\b", s):
                bad.append("%s: top-level %s" % (os.path.relpath(f, VERIF), s[:40]))
    return bad

def coq_build():
    """Full .vo build (never -vos). Returns (ok, log)."""
    with Lock("coq"):
        if not os.path.exists(os.path.join(COQ, "Makefile")):
            rc, out = run(["coq_makefile", "-f", "_CoqProject", "-o", "Makefile"], cwd=COQ)
            if rc != 0: return False, out
        rc, out = run(["make", "-j16"], cwd=COQ, timeout=3000)
        return rc == 0, out

def property_theorems(pid):
    """Re-check Properties/<pid>.v and parse its Print Assumptions output.
    Returns dict(obligations, discharged, axioms, theorems, log, ok)."""
    vfile = os.path.join(COQ, "Properties", pid + ".v")
    res = dict(obligations=0, discharged=0, axioms=[], theorems=[], log="", ok=False)
    if not os.path.exists(vfile):
        res["log"] = "missing " + vfile
        return res
    src = strip_comments(open(vfile).read())
    thms = re.findall(r"^\s*Theorem\s+(\w+)", src, re.M)
    res["obligations"] = len(thms)
    res["theorems"] = thms
    with Lock("coq"):
        vo = vfile + "o"
        if os.path.exists(vo): os.remove(vo)
        rc, out = run(["make", "Properties/%s.vo" % pid], cwd=COQ, timeout=3000)
    res["log"] = out
    if rc != 0:
        return res
    # each Print Assumptions prints either "Closed under the global context" or "Axioms:" + list
    blocks = re.split(r"(?=Closed under the global context|Axioms:)", out)
    closed = 0; axioms = set(); bad_ax = set()
    for b in blocks:
        if b.startswith("Closed under the global context"):
            closed += 1
        elif b.startswith("Axioms:"):
            names = re.findall(r"^([A-Za-z_][\w.']*)\s*:", b[len("Axioms:"):], re.M)
            axs = set(names)
            axioms |= axs
            if axs <= ALLOWED_AXIOMS: closed += 1
            else: bad_ax |= (axs - ALLOWED_AXIOMS)
    res["axioms"] = sorted(axioms)
    res["bad_axioms"] = sorted(bad_ax)
    res["discharged"] = min(closed, len(thms))
    res["ok"] = (closed >= len(thms)) and not bad_ax and len(thms) > 0
    return res

def driver_build():
    """Extracted model (coq/model.ml, produced by Extract/Extract.v) + OCaml glue."""
    with Lock("driver"):
        src = os.path.join(COQ, "model.ml")
        gen = os.path.join(DRIVER, "gen")
        os.makedirs(gen, exist_ok=True)
        exe = os.path.join(DRIVER, "driver")
        h = hashlib.sha256(open(src, "rb").read() + open(os.path.join(DRIVER, "driver.ml"), "rb").read()).hexdigest()
        stamp = os.path.join(gen, "stamp")
        if os.path.exists(exe) and os.path.exists(stamp) and open(stamp).read() == h:
            return True, "cached"
        shutil.copy(src, gen); shutil.copy(os.path.join(COQ, "model.mli"), gen)
        rc, out = run(["ocamlfind", "ocamlopt", "-O2", "-package", "zarith", "-linkpkg", "-I", "gen",
                       "gen/model.mli", "gen/model.ml", "driver.ml", "-o", "driver"], cwd=DRIVER)
        if rc == 0: open(stamp, "w").write(h)
        return rc == 0, out

def harness_build():
    """cargo rebuilds toodee from /repo's current working tree (path dependency)."""
    logs = []
    with Lock("cargo"):
        lock_src = "/repo/Cargo.lock"
        if os.path.exists(lock_src) and not os.path.exists(os.path.join(HARNESS, "Cargo.lock")):
            shutil.copy(lock_src, HARNESS)
        for prof in (["build", "--offline"], ["build", "--offline", "--release"]):
            rc, out = run(["cargo"] + prof, cwd=HARNESS, timeout=3000)
            logs.append(out)
            if rc != 0: return False, "\n".join(logs)
    return True, "\n".join(logs)

def harness_bin(profile):
    return os.path.join(HARNESS, "target", "debug" if profile == "debug" else "release", "harness")

def gen_cases(pid, tier, seed, profile, wdir):
    path = os.path.join(wdir, "%s.%s.%s.cases" % (pid, tier, profile))
    # a generator run normally takes seconds (quick) to a few minutes (thorough); a run that
    # exceeds the limit hangs inside the crate: it is killed and the case in progress (written
    # without observation) is the failing input
    limit = int(os.environ.get("VERIF_HARNESS_TIMEOUT", "180" if tier == "quick" else "1500"))
    try:
        p = subprocess.run([harness_bin(profile), "gen", pid, tier, str(seed), path], cwd=wdir,
                           stdout=subprocess.PIPE, stderr=subprocess.STDOUT, text=True, timeout=limit)
        return path, p.returncode, p.stdout
    except subprocess.TimeoutExpired as e:
        return path, 124, "harness killed after %ds (hang in the case in progress)" % limit

def run_driver(cases, maxrec=20, shards=16):
    """run the extracted model + oracles over a cases file; large files are split over
    [shards] driver processes (case lines are independent), results merged in shard order"""
    fail = cases + ".fail"
    drv = os.path.join(DRIVER, "driver")
    try:
        lines = [l for l in open(cases) if l.strip() and not l.startswith("#")]
    except OSError:
        lines = []
    big = len(lines) >= 2000 or sum(len(l) for l in lines) > 4_000_000
    if not big or shards <= 1:
        rc, out = run([drv, cases, fail, str(maxrec)], timeout=3000)
        try:
            summ = json.loads(out.strip().splitlines()[-1])
        except Exception:
            summ = dict(total=0, corr_fail=0, oracle_fail=0, crash=0, bad=1, error=out[-2000:])
        return summ, fail
    parts = []
    for i in range(shards):
        sp = "%s.shard%02d" % (cases, i)
        with open(sp, "w") as f: f.writelines(lines[i::shards])
        parts.append(sp)
    procs = [subprocess.Popen([drv, sp, sp + ".fail", str(maxrec)], stdout=subprocess.PIPE,
                              stderr=subprocess.STDOUT, env=ENV, text=True, errors="replace") for sp in parts]
    summ = dict(total=0, corr_fail=0, oracle_fail=0, crash=0, bad=0)
    with open(fail, "w") as ff:
        for sp, pr in zip(parts, procs):
            try:
                out, _ = pr.communicate(timeout=3000)
                one = json.loads(out.strip().splitlines()[-1])
                for k in summ: summ[k] += one.get(k, 0)
            except Exception as e:
                pr.kill()
                summ["bad"] += 1; summ["error"] = "driver shard %s: %s" % (sp, str(e)[-500:])
            if os.path.exists(sp + ".fail"):
                ff.write(open(sp + ".fail").read()); os.remove(sp + ".fail")
            os.remove(sp)
    return summ, fail

def parse_failures(failfile):
    """[(kind, case_line, expected)] kind in ORACLE / CORR / CRASH"""
    res = []
    if not os.path.exists(failfile): return res
    lines = open(failfile).read().splitlines()
    i = 0
    while i < len(lines):
        h = lines[i]
        if h.startswith("CRASH"):
            res.append(("CRASH", lines[i + 1][5:], "")); i += 2
        elif h.startswith("ORACLE_"):
            kind = "ORACLE" if h.startswith("ORACLE_FAIL") else "CORR"
            res.append((kind, lines[i + 1][5:], lines[i + 2][9:] if i + 2 < len(lines) else "")); i += 3
        else:
            i += 1
    return res

def case_stats(paths):
    """evaluations, distinct non-trivial inputs (header flag set by the harness), samples"""
    total = 0; seen = set(); samples = []; raw = []
    for p in paths:
        with open(p) as f:
            for line in f:
                if line.startswith("# sample "):
                    if len(samples) < 6: samples.append(line[9:].strip())
                    continue
                if line.startswith("#") or "|" not in line: continue
                total += 1
                hd, inp, _ = (line.split("|") + ["", ""])[:3]
                hs = hd.split()
                nontrivial = len(hs) < 3 or hs[2] != "0"
                if nontrivial:
                    # the first input integer is the build-profile flag: not part of the case identity
                    seen.add(hashlib.blake2b(" ".join(inp.split()[1:]).encode(), digest_size=8).digest())
                if len(raw) < 2 and total % 1013 == 7: raw.append(line.strip()[:600])
    return total, len(seen), samples + raw


# ---------------------------------------------------------------------------------------
# extraction cross-check (DESIGN 3.4): the same sampled cases evaluated by the extracted
# OCaml model and inside Coq with vm_compute must agree

def sample_cases(paths, k):
    """evenly spaced sample of complete case lines (with observation) from the case files"""
    lines = []
    for p in paths:
        if not os.path.exists(p): continue
        with open(p) as f:
            for line in f:
                if line.startswith("#") or line.count("|") != 2: continue
                if not line.split("|")[2].strip(): continue
                lines.append(line.rstrip("\n"))
    if not lines: return []
    step = max(1, len(lines) // k)
    picked = lines[::step][:k]
    # keep Coq literals small: skip cases with very long inputs
    return [l for l in picked if len(l.split("|")[1].split()) <= 400]

def parse_coq_list_of_lists(out):
    m = re.search(r"=\s*(\[.*\])\s*:\s*list \(list N\)", out, re.S)
    if not m: return None
    txt = re.sub(r"%N|\s", "", m.group(1)).replace(";", ",")
    try:
        return json.loads(txt)
    except Exception:
        return None

def extraction_crosscheck(pid, paths, wdir, k):
    """returns dict(checked, agree, detail)"""
    sample = sample_cases(paths, k)
    res = dict(checked=0, agree=True, detail="")
    if not sample: return res
    sfile = os.path.join(wdir, "xcheck.cases")
    with open(sfile, "w") as f:
        f.write("\n".join(sample) + "\n")
    dump = os.path.join(wdir, "xcheck.dump")
    rc, out = run([os.path.join(DRIVER, "driver"), sfile, dump, "dump"], timeout=600)
    ocaml = [[int(x) for x in l.split()] for l in open(dump).read().splitlines()]
    vfile = os.path.join(wdir, "xcheck_%s.v" % pid)
    with open(vfile, "w") as f:
        f.write("From TD Require Import Base.Prelude Extract.Dispatch.\nOpen Scope N_scope.\n")
        f.write("Definition xcases : list (N * list N) := [\n")
        items = []
        for l in sample:
            hd, inp, _ = l.split("|")
            fam = hd.split()[1]
            items.append("  (%s, [%s])" % (fam, "; ".join(inp.split())))
        f.write(";\n".join(items) + "].\n")
        f.write("Eval vm_compute in (map (fun c => model (fst c) (snd c)) xcases).\n")
    with Lock("coq"):
        rc, out = run(["coqc", "-noglob", "-Q", COQ, "TD", vfile], cwd=wdir, timeout=1200)
    for ext in (".vo", ".vok", ".vos", ".glob"):
        try: os.remove(vfile[:-2] + ext)
        except OSError: pass
    coq = parse_coq_list_of_lists(out) if rc == 0 else None
    res["checked"] = len(sample)
    if coq is None:
        res["agree"] = False; res["detail"] = "coqc failed or output not parsed: " + out[-400:]
    elif coq != ocaml:
        res["agree"] = False
        for i, (a, b) in enumerate(zip(coq, ocaml)):
            if a != b:
                res["detail"] = "case %s: vm_compute %s vs extracted %s" % (sample[i][:200], a[:20], b[:20]); break
        else:
            res["detail"] = "different number of results"
    return res

def coqchk_property(pid):
    """independent re-check of the property's .vo closure; returns (ok, axioms_text)"""
    with Lock("coq"):
        rc, out = run(["coqchk", "-silent", "-o", "-Q", ".", "TD", "TD.Properties.%s" % pid], cwd=COQ, timeout=3000)
    return rc == 0, out[-1500:]

# ---------------------------------------------------------------------------------------
# anchors (DESIGN 3.5): a hash of the comment- and whitespace-free text of every Rust source
# file at the state the model was written against; a difference never raises an alarm, it
# only makes the quick tier run the thorough generators

def rust_norm_hash(path):
    txt = open(path, errors="replace").read()
    txt = re.sub(r"//[^\n]*", "", txt)
    txt = re.sub(r"/\*.*?\*/", "", txt, flags=re.S)
    txt = re.sub(r"\s+", "", txt)
    return hashlib.sha256(txt.encode()).hexdigest()[:16]

def anchor_drift(pid):
    afile = os.path.join(VERIF, "anchors.json")
    if not os.path.exists(afile): return []
    anchors = json.load(open(afile))
    moved = []
    for f in anchors.get("properties", {}).get(pid, []):
        path = os.path.join("/repo", f)
        h = rust_norm_hash(path) if os.path.exists(path) else "missing"
        if anchors["files"].get(f) != h: moved.append(f)
    return moved

def outcome_histogram(paths):
    """how many cases the implementation accepted / rejected (first observation token)"""
    h = {}
    for p in paths:
        if not os.path.exists(p): continue
        with open(p) as f:
            for line in f:
                if line.startswith("#") or line.count("|") != 2: continue
                obs = line.split("|")[2].split()
                key = "no-observation" if not obs else ("first_obs_" + (obs[0] if len(obs[0]) < 3 else "other"))
                h[key] = h.get(key, 0) + 1
    return h
